"""C08 bounded stand-in: YAML Path text <-> parsed segments round trip, in both notations.

Statement clauses checked on the REAL `yamlpath.YAMLPath` (oracle written from the statement and
/repo/README.md "Supported YAML Path Segments"; clauses the documentation is silent on are marked
`from-code` and never produce a witness):

 (1) parse     : a well-formed segment sequence S written as text (dot or forward-slash notation,
                 documented escapes / demarcation, by the independent renderer below) parses --
                 `YAMLPath(text).escaped` -- to exactly S: kind, key text, index, slice bounds text,
                 anchor name, search attribute / operator / inversion / term, keyword + parameters,
                 collector operator + inner path (the inner path is compared recursively, by
                 parsing the collector expression that the processor executes, i.e. the one of the
                 `unescaped` segment -- from-code: processor.py hands `unesc_attrs` to
                 `_get_nodes_by_collector`).  The notation must be inferred as written.
 (2) canonical : `str(YAMLPath(text))`, and the canonical string after forcing the other notation
                 (`p.separator = ...`), re-parse to S, and each is a fixed point:
                 `str(YAMLPath(c)) == c`.
 (3) equality  : `p == q` exactly when the segments are equal: renderings of the same S (other
                 notation, canonical text, str operand) compare equal; a neighbour sequence S' with
                 different segments compares unequal (`==` False and `!=` True).
 (4) append/pop: `YAMLPath(render(S[:-1])).append(render(S[-1]))` has segments S, and `pop()` then
                 returns that last segment and restores the segments, the notation, `==` and the
                 text `original` of the path before.  (Only exception, counted as an out-of-scope
                 observation: the root path written "/" comes back as "" -- both are the empty path.)

Witness key:  C08/<clause>/<what differs>/<shape>[/dot-only|/slash-only]
  clause        parse | canon-stringify | canon-reparse | canon-fixed-point | eq | append | pop
  what differs  coarse class computed from the failing run: segment-count, kind-changed,
                <kind>.<field> (key.text, search.op, kw.params, coll.inner ...), raises:<Type>[@file:func],
                eq: <which pair>:eq-<got>-but-segments-<equal|differ>, pop: segment-still-present:... |
                path-damaged | text-not-restored
  shape         kinds + writing styles (never the texts) of a locally minimal sub-sequence that still
                fails the same clause in the same way (greedy shrinking: drop an entry, replace an
                entry by the plain key `a`, simplify attribute / term / parameters, reduce a
                collector's inner path); `/dot-only` or `/slash-only` when that minimal sequence fails
                in one notation only.  The one class known to have a single cause whatever the segment
                (pop() of a segment whose appended text is not the canonical rendering) has no shape.

Bounds: quick = every sequence of <= 2 entries of the compact vocabulary (~145 entries) + ~1400 single
segments with exhaustive texts (keys <= 2 characters, terms 1 character over the 15-character
alphabet) in 3 contexts + 3000 random sequences of 4..6 entries; thorough = compact^<=2, core(81)^3,
medium(~455)^2, ~15000 single segments (keys <= 3, terms / attributes / parameters <= 2 characters)
in 3 contexts, 150000 random sequences.  Everything in both notations.

Excluded by the statement (counted with out_of_scope, never a witness): dot-notation texts whose
first character is '/'; keys that begin with '&', contain '*' or a backslash, or are empty.

Segment vocabulary (tuples; every vocabulary ENTRY is `(segment, style)`, the style says how the
renderer writes the texts of that segment, so mixed styles occur inside one path):
  ("key", text)  ("idx", int)  ("slice", lo, hi)  ("anchor", name)
  ("search", inverted, attr, op, term)         op in pathgen.OPS, attr "." or key text
  ("kw", inverted, name, (param, ...))         name in the 7 documented keywords
  ("coll", operator, (entry, ...))             operator "", "+", "-", "&"; inner path = entries
  ("all",)  ("trav",)
Styles: "esc"  backslash before every special character (README: "Escape symbol recognition");
        "sq"/"dq"  demarcated with '...' / "..." (README: "Demarcation for dotted Hash keys",
        "Demarcate and/or escape expression operands"); embedded quotes of either kind, the
        backslash, brackets and parentheses are additionally backslash-escaped inside the
        demarcation (README: "embedded, single ' and \" must be escaped");
        "pre"  inversion written as prefix `[!a=b]` instead of `[a!=b]` (README: both documented).
"""
import itertools
import json
import os
import random
import sys

import yamlpath
from yamlpath import YAMLPath
from yamlpath.enums import PathSeparators, PathSegmentTypes
from yamlpath.exceptions import YAMLPathException
from yamlpath.path import SearchTerms, SearchKeywordTerms, CollectorTerms

from rtc import harness, pathgen
from rtc.pathgen import OPS

SPECIALS = ". / [ ] ( ) ' \"".split() + [" ", "^", "$", "%"]      # the property's escapable set
assert len(SPECIALS) == 12
KA = ["a", "b", "1"] + SPECIALS                                     # key / term text alphabet
KEYWORDS = ("has_child", "name", "max", "min", "parent", "unique", "distinct")
PKG_DIR = os.path.dirname(os.path.abspath(yamlpath.__file__))
PKG_PREFIX = PKG_DIR + os.sep

T = PathSegmentTypes


# ----------------------------------------------------------------------------------------------
# independent renderer (agrees with pathgen.render on the kinds / default style that one supports;
# checked by _selftest)
def _esc(text, chars):
    return "".join("\\" + c if c in chars else c for c in text)


def r_key(text, sep, style):
    if style in ("sq", "dq"):
        q = "'" if style == "sq" else '"'
        return q + _esc(text, "\\'\"[]()") + q
    return pathgen.esc_key(text, sep)


def r_attr(attr, sep):
    # README: `hash[full\ name=...]`; a descendant attribute `a.b` is a different thing (a sub-path),
    # so a dot INSIDE an attribute key text is escaped; "/ ... does not need to be escaped because
    # the entire search expression is contained within a [] pair".
    if attr == ".":
        return "."
    return _esc(attr, "\\[]()'\"^$% =!<>~&*.")


def r_term(term, style):
    if style in ("sq", "dq"):
        q = "'" if style == "sq" else '"'
        return q + _esc(term, "\\'\"[]()") + q
    if term == "":
        return '""'                           # README: `hierarchy[with!=""]`
    return _esc(term, "\\[]()'\"^$% =!<>~")


def r_regex(term):
    for d in "/|#,;@":
        if d not in term:
            return d + term + d
    raise ValueError("no delimiter for regex %r" % (term,))


def r_param(param, style):
    if style in ("sq", "dq"):
        q = "'" if style == "sq" else '"'
        return q + _esc(param, "\\'\"[]()") + q
    if param == "":
        return "''"
    return _esc(param, "\\[]()'\"^$% ,=!<>~")


def render_entry(entry, sep, first):
    """-> (text, needs_separator_before)"""
    seg, style = entry
    k = seg[0]
    if k == "key":
        return r_key(seg[1], sep, style), True
    if k == "idx":
        return "[%d]" % seg[1], False
    if k == "slice":
        return "[%s:%s]" % (seg[1], seg[2]), False
    if k == "anchor":
        return ("&%s" % seg[1], True) if first else ("[&%s]" % seg[1], False)
    if k == "search":
        _, inv, attr, op, term = seg
        a = r_attr(attr, sep)
        t = r_regex(term) if op == "=~" else r_term(term, style if style != "pre" else "esc")
        if inv and style == "pre":
            return "[!%s%s%s]" % (a, op, t), False
        return "[%s%s%s%s]" % (a, "!" if inv else "", op, t), False
    if k == "all":
        return "*", True
    if k == "trav":
        return "**", True
    if k == "kw":
        _, inv, name, params = seg
        return "[%s%s(%s)]" % ("!" if inv else "", name, ", ".join(r_param(p, style) for p in params)), False
    if k == "coll":
        _, op, inner = seg
        return "%s(%s)" % (op, render(inner, sep, nested=True)), False
    raise ValueError(entry)


def render(entries, sep=".", nested=False):
    parts = []
    first = True
    for e in entries:
        text, needs_sep = render_entry(e, sep, first)
        if needs_sep and (not first or sep == "/"):
            parts.append(sep)
        parts.append(text)
        first = False
    s = "".join(parts)
    if sep == "/" and not s.startswith("/") and (entries or not nested):
        # also for a collector's inner path: it is a YAML Path of its own whose notation is
        # inferred from ITS first character (pathgen.render leaves `([0]/a)` without the slash)
        s = "/" + s
    return s


# ----------------------------------------------------------------------------------------------
# expected (normal form of S) and observed (normal form of a parse result)
def expected(entries):
    out = []
    for seg, _style in entries:
        k = seg[0]
        if k == "key":
            out.append(("key", str(seg[1])))
        elif k == "slice":
            out.append(("slice", "%s:%s" % (seg[1], seg[2])))
        elif k == "kw":
            out.append(("kw", seg[1], seg[2], tuple(seg[3])))
        elif k == "coll":
            out.append(("coll", seg[1], tuple(expected(seg[2]))))
        else:
            out.append(tuple(seg))
    return out


def observe(path, depth=0):
    """Normal form of `path.escaped` (collector inner paths from `path.unescaped`, see header)."""
    esc = list(path.escaped)
    une = list(path.unescaped)
    out = []
    for i, (typ, attrs) in enumerate(esc):
        if typ in (T.KEY, T.ANCHOR) and not isinstance(attrs, str):
            out.append(("?", typ.name, "%s:%s" % (type(attrs).__name__, attrs)))     # e.g. an ANCHOR holding CollectorTerms
        elif typ is T.KEY:
            out.append(("key", attrs))
        elif typ is T.INDEX:
            if isinstance(attrs, int):
                out.append(("idx", attrs))
            else:
                out.append(("slice", attrs))     # from-code: a slice is an INDEX whose attrs is "lo:hi"
        elif typ is T.ANCHOR:
            out.append(("anchor", attrs))
        elif typ is T.SEARCH and isinstance(attrs, SearchTerms):
            out.append(("search", attrs.inverted, attrs.attribute, str(attrs.method), attrs.term))
        elif typ is T.KEYWORD_SEARCH and isinstance(attrs, SearchKeywordTerms):
            try:
                params = tuple(attrs.parameters)
            except ValueError as ex:
                params = ("<ValueError: %s>" % ex,)
            out.append(("kw", attrs.inverted, str(attrs.keyword), params))
        elif typ is T.COLLECTOR and isinstance(attrs, CollectorTerms):
            u_attrs = une[i][1] if i < len(une) and isinstance(une[i][1], CollectorTerms) else attrs
            if depth > 4:
                raise RuntimeError("collector nesting too deep in harness")
            try:
                inner = tuple(observe(YAMLPath(u_attrs.expression), depth=depth + 1))
            except YAMLPathException as ex:
                inner = ("<%s: %s>" % (type(ex).__name__, ex.user_message),)
            out.append(("coll", str(attrs.operation), inner))
        elif typ is T.MATCH_ALL:
            out.append(("all",))
        elif typ is T.TRAVERSE:
            out.append(("trav",))
        else:
            out.append(("?", getattr(typ, "name", repr(typ)), repr(attrs)))
    return out


_OBS_CACHE = {}


def obs_text(text):
    """observe(YAMLPath(text)), memoised (parsing is deterministic); library errors are re-raised."""
    hit = _OBS_CACHE.get(text)
    if hit is None:
        try:
            hit = (True, observe(YAMLPath(text)))
        except _LIB_ERRORS as ex:
            ex._c08_class = _exc_class(ex)      # classify now (re-raises harness-side exceptions) ...
            ex.__traceback__ = None             # ... and do not keep the frames alive in the cache
            hit = (False, ex)
        if len(_OBS_CACHE) > 100000:
            _OBS_CACHE.clear()
        _OBS_CACHE[text] = hit
    if hit[0]:
        return hit[1]
    raise hit[1]


def oos_class(entries, text, sep):
    """Reason why this case is outside the statement's quantifier, or None."""
    if sep == "." and text[:1] == "/":
        return "dot-notation-first-char-slash"
    for seg, _ in entries:
        if seg[0] == "key":
            t = str(seg[1])
            if t == "":
                return "empty-key"
            if t[0] == "&":
                return "key-begins-with-&"
            if "*" in t:
                return "key-contains-*"
            if "\\" in t:
                return "key-contains-backslash"
        elif seg[0] == "coll":
            inner_text = render(seg[2], sep, nested=True)
            r = oos_class(seg[2], inner_text, sep)
            if r:
                return r
    return None


# ----------------------------------------------------------------------------------------------
# difference classes (WHAT differs -- coarse `kind` goes into the witness key, `detail` into `what`)
_CHAR_NAMES = {".": "dot", "/": "slash", "[": "lbracket", "]": "rbracket", "(": "lparen", ")": "rparen",
               "'": "squote", '"': "dquote", " ": "space", "^": "caret", "$": "dollar", "%": "percent",
               "\\": "backslash", "&": "amp", "*": "star", ",": "comma", "!": "bang", "=": "eq"}


def _names(chars):
    return "+".join(sorted({_CHAR_NAMES.get(c, "alnum" if c.isalnum() else "other") for c in chars}))


def _subseq_rest(small, big):
    """If `small` is a subsequence of `big`: the characters of `big` left over, else None."""
    rest = []
    i = 0
    for c in big:
        if i < len(small) and small[i] == c:
            i += 1
        else:
            rest.append(c)
    return rest if i == len(small) else None


def text_rel(e, o):
    """-> (coarse, detail)"""
    if not isinstance(o, str) or not isinstance(e, str):
        return "type", "type:%s" % type(o).__name__
    rest = _subseq_rest(o, e)
    if rest is not None:
        return "lost", "lost:" + _names(rest)
    rest = _subseq_rest(e, o)
    if rest is not None:
        return "extra", "extra:" + _names(rest)
    return "changed", "changed"


_FIELDS = {"key": ("kind", "text"), "idx": ("kind", "index"), "slice": ("kind", "bounds"),
           "anchor": ("kind", "name"), "search": ("kind", "inverted", "attr", "op", "term"),
           "kw": ("kind", "inverted", "name", "params"), "coll": ("kind", "op", "inner"),
           "all": ("kind",), "trav": ("kind",), "?": ("kind",)}


def diff(E, O):
    """None if equal, else (index, coarse kind, detail).  Coarse kinds (they go into witness keys):
    segment-count, kind-changed, <kind>.<field>, coll.inner."""
    if E == O:
        return None
    for i in range(max(len(E), len(O))):
        e = E[i] if i < len(E) else None
        o = O[i] if i < len(O) else None
        if e == o:
            continue
        if e is None:
            return i, "segment-count", "extra-segment:%s" % o[0]
        if o is None:
            return i, "segment-count", "missing-segment:%s" % e[0]
        if e[0] != o[0]:
            return i, "kind-changed", "%s-became-%s" % (e[0], o[0])
        for f, (ef, of) in zip(_FIELDS[e[0]][1:], zip(e[1:], o[1:])):
            if ef == of:
                continue
            if f == "inner":
                if of and isinstance(of[0], str):
                    return i, "coll.inner", "coll.inner:unparsable:%s" % of[0][:60]
                d = diff(list(ef), list(of))
                return i, "coll.inner", "coll.inner:%s" % d[2]
            if f == "params":
                if any(isinstance(x, str) and x.startswith("<ValueError") for x in of):
                    return i, "kw.params", "kw.params:%s" % of[0]
                if len(ef) != len(of):
                    return i, "kw.params", "kw.params:count%+d" % (len(of) - len(ef))
                for ep, op_ in zip(ef, of):
                    if ep != op_:
                        return i, "kw.params", "kw.params:%s" % text_rel(ep, op_)[1]
            if isinstance(ef, str) and isinstance(of, str):
                return i, "%s.%s" % (e[0], f), "%s.%s:%s" % (e[0], f, text_rel(ef, of)[1])
            return i, "%s.%s" % (e[0], f), "%s.%s:%r-became-%r" % (e[0], f, ef, of)
    return 0, "unequal", "unequal"          # pragma: no cover


def _in_package(tb):
    inner = None
    while tb is not None:
        code = tb.tb_frame.f_code
        if code.co_filename.startswith(PKG_PREFIX):
            inner = "%s:%s" % (os.path.relpath(code.co_filename, PKG_DIR), code.co_name)
        tb = tb.tb_next
    return inner


def _exc_class(ex):
    """(coarse, detail) of a library exception; re-raises exceptions that do not come from the package."""
    done = getattr(ex, "_c08_class", None)
    if done is not None:
        return done
    if isinstance(ex, YAMLPathException):
        return "raises:%s" % type(ex).__name__, "raises %s: %s" % (type(ex).__name__, ex.user_message[:70])
    where = _in_package(ex.__traceback__)
    if where is None:
        raise ex
    return "raises:%s@%s" % (type(ex).__name__, where), "raises %s: %s" % (type(ex).__name__, str(ex)[:70])


_LIB_ERRORS = (YAMLPathException, IndexError, ValueError, TypeError, KeyError, AttributeError)
_SEPS = {".": PathSeparators.DOT, "/": PathSeparators.FSLASH}


class Fail:
    """One clause failure.  `clause` + `kind` (coarse) identify WHAT fails; used for blame and key."""
    __slots__ = ("clause", "kind", "detail", "observed", "expected", "shape")

    def __init__(self, clause, kind, detail, observed, expected, shape=None):
        self.clause, self.kind, self.detail = clause, kind, detail
        self.observed, self.expected, self.shape = observed, expected, shape


# ----------------------------------------------------------------------------------------------
# clause evaluators: (entries, sep) -> [Fail]
def ev_parse(entries, sep, oos=None):
    text = render(entries, sep)
    E = expected(entries)
    try:
        O = obs_text(text)
        inferred = YAMLPath(text).separator
    except _LIB_ERRORS as ex:
        k, dt = _exc_class(ex)
        return [Fail("parse", k, dt, "%s: %s" % (type(ex).__name__, ex), E)]
    out = []
    d = diff(E, O)
    if d:
        out.append(Fail("parse", d[1], d[2], O, E))
    if E and inferred is not _SEPS[sep]:
        # README: inferred "by whether the first character of a given YAML Path is /"
        out.append(Fail("parse", "notation-inferred-wrong", "inferred %s" % inferred.name, inferred.name, _SEPS[sep].name))
    return out


def ev_canon(entries, sep, oos=None):
    """Clause (2) is about a PARSED path p: its canonical strings must re-parse to segments(p)
    (whether segments(p) are the ones that were written is clause (1))."""
    text = render(entries, sep)
    try:
        P0 = obs_text(text)
    except _LIB_ERRORS:
        return []               # clause (1)
    out = []
    for nsep in (".", "/"):
        which = "same-notation" if nsep == sep else "other-notation"
        try:
            q = YAMLPath(text)
            if nsep != sep:
                q.separator = _SEPS[nsep]
            c = str(q)
        except _LIB_ERRORS as ex:
            k, dt = _exc_class(ex)
            out.append(Fail("canon-stringify", k, "%s: %s" % (which, dt), "%s: %s" % (type(ex).__name__, ex), P0))
            continue
        if nsep == "." and c[:1] == "/":
            if oos is not None:
                oos.append("canonical-dot-text-first-char-slash")
            continue
        try:
            O = obs_text(c)
            c2 = str(YAMLPath(c))
        except _LIB_ERRORS as ex:
            k, dt = _exc_class(ex)
            out.append(Fail("canon-reparse", k, "%s: %s" % (which, dt),
                            {"canonical": c, "error": "%s: %s" % (type(ex).__name__, ex)}, P0))
            continue
        d = diff(P0, O)
        if d:
            out.append(Fail("canon-reparse", d[1], "%s: %s" % (which, d[2]), {"canonical": c, "segments": O}, P0))
        elif c2 != c:
            rel = text_rel(c, c2)
            out.append(Fail("canon-fixed-point", "str-of-str-differs", "%s: %s" % (which, rel[1]),
                            {"canonical": c, "str(YAMLPath(canonical))": c2}, c))
        if nsep != sep and not d:
            # the history "parse, switch the notation, then compare / extend": q still has segments P0
            # (checked just above through its canonical text), so it equals the text it was parsed from
            # and a path parsed from that text, and q + <key> ends in exactly that key
            try:
                eqs = {"q == text": q == text, "text == q": text == q,
                       "q == YAMLPath(text)": q == YAMLPath(text), "YAMLPath(text) == q": YAMLPath(text) == q}
                bad = sorted(k for k, v in eqs.items() if v is not True)
                if bad:
                    out.append(Fail("equality", "false-after-notation-switch", ", ".join(bad),
                                    {"text": text, "switched-to": nsep, "results": {k: repr(v) for k, v in eqs.items()}},
                                    "True (segments equal: %r)" % (P0,)))
                ext = q + "xyz"
                Oe = observe(ext)
                de = diff(list(P0) + [("key", "xyz")], Oe)
                if de:
                    out.append(Fail("append-pop", "plus-after-notation-switch", de[2],
                                    {"text": text, "switched-to": nsep, "segments(q + 'xyz')": Oe},
                                    list(P0) + [("key", "xyz")]))
            except _LIB_ERRORS as ex:
                k, dt = _exc_class(ex)
                out.append(Fail("equality", k, "after notation switch: %s" % dt,
                                "%s: %s" % (type(ex).__name__, ex), P0))
    # one Fail per (clause, kind): same-notation and other-notation failures of one kind are one thing
    seen = set()
    uniq = []
    for f in out:
        if (f.clause, f.kind) not in seen:
            seen.add((f.clause, f.kind))
            uniq.append(f)
    return uniq


def _eq_pair(p_text, q_text, label, out, shape=None, only_if_same=False, full=True):
    """(p == q) must be exactly (segments(p) == segments(q)) -- `escaped` segments, "the parsed YAML
    Path used for processing YAML data"; with full=True also: != must be its negation and a str
    operand must behave like the YAMLPath operand."""
    try:
        same = obs_text(p_text) == obs_text(q_text)
    except _LIB_ERRORS:
        return              # unparsable operand: clause (1)/(2) material, nothing to compare here
    if only_if_same and not same:
        return
    try:
        p = YAMLPath(p_text)
        q = YAMLPath(q_text)
        got_eq = (p == q)
        got_ne = (p != q) if full else (not got_eq)
        got_eq_str = (p == q_text) if full else got_eq
    except _LIB_ERRORS as ex:
        k, dt = _exc_class(ex)
        out.append(Fail("eq", k, "%s: %s" % (label, dt), "%s: %s" % (type(ex).__name__, ex), same, shape))
        return
    pair = {"p": p_text, "q": q_text}
    if got_eq != same:
        out.append(Fail("eq", "%s:eq-%s-but-segments-%s" % (label, got_eq, "equal" if same else "differ"),
                        label, dict(pair, **{"p==q": got_eq}), same, shape))
    if got_ne != (not got_eq):
        out.append(Fail("eq", "ne-is-not-the-negation-of-eq", label, dict(pair, **{"p==q": got_eq, "p!=q": got_ne}),
                        not got_eq, shape))
    if got_eq_str != got_eq:
        out.append(Fail("eq", "str-operand-differs-from-YAMLPath-operand", label,
                        dict(pair, **{"p==YAMLPath(q)": got_eq, "p==q_text": got_eq_str}), got_eq, shape))


def ev_eq(entries, sep, oos=None):
    """Positive half of clause (3): other notation / canonical text of the SAME segments."""
    text = render(entries, sep)
    osep = "/" if sep == "." else "."
    out = []
    otext = render(entries, osep)
    if not (osep == "." and otext[:1] == "/"):
        # only when both renderings do parse to the same (expected) segments -- otherwise clause (1)
        _eq_pair(text, otext, "other-notation", out)
    try:
        c = str(YAMLPath(text))
    except _LIB_ERRORS:
        c = None
    if c is not None and not (sep == "." and c[:1] == "/"):
        _eq_pair(text, c, "canonical", out, only_if_same=True, full=False)      # else: clause (2) already failed
    return out


def ev_neighbours(entries, sep, neighbours):
    """Negative half of clause (3): sequences with different segments."""
    text = render(entries, sep)
    osep = "/" if sep == "." else "."
    out = []
    for i, (how, nb) in enumerate(neighbours):
        for nsep in ((sep, osep) if i == 0 else (sep,)):
            ntext = render(nb, nsep)
            if nsep == "." and ntext[:1] == "/":
                continue
            _eq_pair(text, ntext, "neighbour", out, shape=how, full=(i == 0 and nsep == sep))
    return out


def ev_append_pop(entries, sep, oos=None):
    if not entries:
        return []
    base, last = list(entries[:-1]), entries[-1]
    if last[0][0] == "coll" and last[0][1] != "":
        return []               # `+(..)` is not a segment that can stand after a separator
    E = expected(entries)
    Eb = expected(base)
    btext = render(base, sep)
    if sep == "." and btext[:1] == "/":
        return []
    stext, _ = render_entry(last, sep, first=not base)
    out = []
    try:
        p = YAMLPath(btext)
        before = observe(p)
        before_sep = p.separator
        if before != Eb:
            return []           # the base itself does not parse as written: clause (1), not this one
        p.append(stext)
        O = observe(p)
    except _LIB_ERRORS as ex:
        k, dt = _exc_class(ex)
        return [Fail("append", k, dt, "%s: %s" % (type(ex).__name__, ex), E)]
    d = diff(E, O)
    if d:
        if not ev_parse([last], sep):
            out.append(Fail("append", d[1], d[2], {"base": btext, "appended": stext, "segments": O}, E))
        return out              # else: the segment does not even parse alone -- clause (1)
    try:
        popped = p.pop()
        after = observe(p)
        after_text = p.original
        after_sep = p.separator
        still_eq = (p == YAMLPath(btext))
    except _LIB_ERRORS as ex:
        k, dt = _exc_class(ex)
        return [Fail("pop", k, dt, "%s: %s" % (type(ex).__name__, ex), Eb)]
    if not (isinstance(popped, tuple) and len(popped) == 2 and popped[0] is _KIND_TO_TYPE[last[0][0]]):
        out.append(Fail("pop", "returned-wrong-segment", "returned %r for %s" % (popped, last[0][0]), repr(popped), last[0][0]))
    d = diff(Eb, after)
    shown = {"base": btext, "appended": stext, "text after pop": after_text, "segments after pop": after}
    if d:
        if len(after) > len(Eb) and after[:len(Eb)] == Eb:
            # the popped segment is still there.  Is it because the appended text is not the text
            # pop() looks for (the canonical rendering of the popped segment)?
            prefix = "a" if sep == "." else "/a"
            try:
                rest = str(YAMLPath(prefix + sep + stext))[len(prefix):]
                if rest[:1] == sep:
                    rest = rest[1:]
                noncanon = rest != stext
            except _LIB_ERRORS:
                noncanon = False
            kind = "segment-still-present:" + ("appended-text-not-canonical" if noncanon else "appended-text-canonical")
        else:
            kind = "path-damaged"
        out.append(Fail("pop", kind, d[2], shown, Eb))
    elif not still_eq:
        out.append(Fail("pop", "not-equal-to-path-before", "", shown, True))
    elif after_text != btext:
        if btext == "/" and after_text == "":
            # the root path in slash notation comes back as the empty text: both are the empty path
            # (no segments, ==); counted, not a witness
            if oos is not None:
                oos.append("append-pop-root-slash-becomes-empty-text")
        else:
            out.append(Fail("pop", "text-not-restored", "segments and == restored, text %r -> %r" % (btext, after_text),
                            shown, btext))
    if Eb and after_sep is not before_sep and not d:
        out.append(Fail("pop", "notation-changed", "", after_sep.name, before_sep.name))
    return out


_KIND_TO_TYPE = {"key": T.KEY, "idx": T.INDEX, "slice": T.INDEX, "anchor": T.ANCHOR, "search": T.SEARCH,
                 "kw": T.KEYWORD_SEARCH, "coll": T.COLLECTOR, "all": T.MATCH_ALL, "trav": T.TRAVERSE}


# ----------------------------------------------------------------------------------------------
# blame: greedy shrinking to a smallest sequence that breaks the same clause in the same way; the
# witness key names the SHAPE (kinds + writing styles) of that sequence, never its texts
def well_formed(entries):
    prev = None
    for seg, _ in entries:
        if seg[0] == "coll":
            if seg[1] != "" and prev != "coll":
                return False
            if not seg[2] or not well_formed(seg[2]) or (seg[2][0][0][0] == "coll" and seg[2][0][0][1] != ""):
                return False
        prev = seg[0]
    return True


def _plain(text):
    return all(c.isalnum() for c in str(text)) and str(text) != ""


def _sig_entry(entry):
    """Shape of one entry: kind + how its texts are written; never the texts."""
    seg, style = entry
    k = seg[0]
    st = "quoted" if style in ("sq", "dq") else style
    if k == "coll":
        return "coll%s[%s]" % (seg[1], "+".join(_sig_entry(e) for e in seg[2]))
    if k == "key":
        return "key" if (st == "esc" and _plain(seg[1])) else "key.%s" % st
    if k == "search":
        _, inv, attr, op, term = seg
        name = "search=~" if op == "=~" else "search"
        if st == "pre":
            name += ".pre"
        parts = []
        if attr != "." and not _plain(attr):
            parts.append("attr.esc")
        if op == "=~":
            if not _plain(term):
                parts.append("term.special")
        elif st == "quoted":
            parts.append("term.quoted")
        elif not _plain(term):
            parts.append("term.esc")
        return name + ("(%s)" % ",".join(parts) if parts else "")
    if k == "kw":
        if st == "quoted" and seg[3]:
            return "kw.quoted"
        if any(not _plain(p) for p in seg[3]):
            return "kw.esc"
        return "kw" if len(seg[3]) < 2 else "kw.multi"
    return k


def shape_of(entries):
    return "+".join(_sig_entry(e) for e in entries) or "empty"


_PLAIN_KEY = (("key", "a"), "esc")
_PLAIN_IDX = (("idx", 0), "-")


def _simpler(entry):
    """Simpler variants of one entry (same kind, plainer texts), then the plain key."""
    seg, style = entry
    k = seg[0]
    if k == "search":
        _, inv, attr, op, term = seg
        if attr not in (".", "a"):
            yield (("search", inv, "a", op, term), style)
        if term != "b":
            yield (("search", inv, attr, op, "b"), "esc" if style in ("sq", "dq") else style)
        if inv:
            yield (("search", False, attr, op, term), "esc" if style == "pre" else style)
    elif k == "kw":
        if seg[3]:
            yield (("kw", seg[1], seg[2], ()), "esc")
            if len(seg[3]) > 1:
                yield (("kw", seg[1], seg[2], seg[3][:1]), style)
        if seg[1]:
            yield (("kw", False, seg[2], seg[3]), style)
    elif k == "coll":
        for inner in _reductions(tuple(seg[2])):
            if inner:
                yield (("coll", seg[1], tuple(inner)), style)
    if not (k == "coll" and seg[1] != ""):
        if entry != _PLAIN_KEY:
            yield _PLAIN_KEY
        if entry != _PLAIN_KEY and entry != _PLAIN_IDX:
            yield _PLAIN_IDX          # a bracketed segment may be what matters (no separator before it)


def _reductions(entries):
    entries = tuple(entries)
    n = len(entries)
    if n > 1:
        for i in range(n):
            yield entries[:i] + entries[i + 1:]
    for i, e in enumerate(entries):
        for s in _simpler(e):
            yield entries[:i] + (s,) + entries[i + 1:]
    if n == 1 and entries[0][0][0] == "coll":
        yield tuple(entries[0][0][2])          # the inner path on its own


_BLAME_CACHE = {}


def _fails_same(evaluator, entries, sep, clause, kind):
    if not entries or not well_formed(entries):
        return False
    if oos_class(entries, render(entries, sep), sep):
        return False
    return any(f.clause == clause and f.kind == kind for f in evaluator(list(entries), sep))


def _fails_clause(evaluator, entries, sep, clause):
    """The kind with which `entries` fails `clause` (first one), or None."""
    if not entries or not well_formed(entries):
        return None
    if oos_class(entries, render(entries, sep), sep):
        return None
    for f in evaluator(list(entries), sep):
        if f.clause == clause:
            return f.kind
    return None


def blame(evaluator, entries, sep, clause, kind):
    """-> (kind, shape): shape of a locally minimal sub-sequence failing `clause`, plus a notation
    marker when that sub-sequence fails in one notation only.
    Phase 1 shrinks while the SAME kind of failure persists.  Phase 2 (only if more than one entry is
    left) drops whole entries as long as the same clause still fails in ANY way and then re-runs
    phase 1 with the kind found there: a failure that merely needs a partner to become visible in
    another form (a regular expression that swallows the segments up to the next `/`) is then named
    after the entry that fails on its own, which keeps the key set independent of the random seed."""
    cur = tuple(entries)
    ck = (evaluator.__name__, cur, sep, clause, kind)
    hit = _BLAME_CACHE.get(ck)
    if hit is not None:
        return hit
    while True:
        progress = True
        while progress:
            progress = False
            for cand in _reductions(cur):
                cand = tuple(cand)
                if cand != cur and _fails_same(evaluator, cand, sep, clause, kind):
                    cur = cand
                    progress = True
                    break
        if len(cur) < 2:
            break
        moved = False
        for i in range(len(cur)):
            cand = cur[:i] + cur[i + 1:]
            k2 = _fails_clause(evaluator, cand, sep, clause)
            if k2 is not None:
                cur, kind, moved = cand, k2, True
                break
        if not moved:
            break
    osep = "/" if sep == "." else "."
    res = shape_of(cur)
    if not _fails_same(evaluator, cur, osep, clause, kind):
        res += "/%s-only" % ("dot" if sep == "." else "slash")
    res = (kind, res)
    if len(_BLAME_CACHE) < 300000:
        _BLAME_CACHE[ck] = res
    return res


# ----------------------------------------------------------------------------------------------
# vocabularies
def texts(alphabet, max_len, min_len=1):
    for n in range(min_len, max_len + 1):
        for t in itertools.product(alphabet, repeat=n):
            yield "".join(t)


def K(text, style="esc"):
    return (("key", text), style)


def S_(inv, attr, op, term, style="esc"):
    return (("search", inv, attr, op, term), style)


def KW(inv, name, params, style="esc"):
    return (("kw", inv, name, tuple(params)), style)


def C(op, inner):
    return (("coll", op, tuple(inner)), "-")


def P(kind, *a):
    return ((kind,) + a, "-")


def compact_vocabulary():
    """~140 entries: every segment kind, every operator / inversion form, every special character in
    key, attribute, term and parameter position, in every writing style; 4 out-of-scope keys."""
    v = [K("a"), K("b1"), K("1")]
    v += [K("a%sb" % c) for c in SPECIALS]
    v += [K(c) for c in SPECIALS]
    v += [K("a.b", "sq"), K("a b", "dq"), K("a/b", "sq"), K(" ", "dq"), K("a'b", "dq"), K("a[b", "sq")]
    v += [P("idx", 0), P("idx", -1), P("idx", 12)]
    v += [P("slice", 0, 2), P("slice", -2, -1), P("slice", "a", "b")]
    v += [P("anchor", "a"), P("anchor", "b1")]
    for op in OPS:
        t = "b"
        v += [S_(False, "a", op, t), S_(True, "a", op, t), S_(False, ".", op, t)]
    v += [S_(True, "a", "=", "b", "pre"), S_(True, ".", "^", "b", "pre")]
    v += [S_(False, "a%s" % c, "=", "b") for c in SPECIALS if c != "."] + [S_(False, "a.b", "=", "b")]
    v += [S_(False, "a", "=", "a%sb" % c) for c in SPECIALS]
    v += [S_(False, "a", "=", "a%sb" % c, "dq" if c != '"' else "sq") for c in SPECIALS]
    v += [S_(False, "a", "=", "", "dq"), S_(False, "a", "=", "1"), S_(False, ".", "=~", "a b"),
          S_(False, "a", "=~", "^a/b$"), S_(True, "a", "=~", "[ab]+(1)"), S_(False, "a", "=~", "/["),
          S_(False, "a", "=~", "] ")]
    v += [P("all"), P("trav")]
    v += [KW(False, "name", ()), KW(False, "parent", ()), KW(False, "parent", ("2",)),
          KW(False, "has_child", ("a",)), KW(True, "has_child", ("a",)), KW(False, "max", ("a",)),
          KW(False, "min", ()), KW(False, "unique", ()), KW(False, "distinct", ("a",)),
          KW(False, "has_child", ("a b",), "sq"), KW(False, "has_child", ("a.b",)), KW(False, "max", ("a", "b"))]
    v += [C("", [K("a")]), C("", [K("a"), K("b1")]), C("", [K("a"), P("idx", 0)]),
          C("", [S_(False, "a", "=", "b")]), C("", [K("a.b")]), C("", [C("", [K("a")]), C("+", [K("b1")])]),
          C("+", [K("b1")]), C("-", [K("b1")]), C("&", [K("b1")]),
          C("", [P("anchor", "a")]), C("", [P("anchor", "a"), K("b1")]), C("", [P("anchor", "a"), C("", [K("b1")])]),
          C("", [P("anchor", "a"), KW(False, "has_child", ("a",))]),
          C("", [S_(False, ".", "=~", "a b")]), C("", [KW(False, "has_child", ("a'b",))]),
          C("", [KW(False, "has_child", ("a'b",), "dq")])]
    v += [K("&a"), K("a*b"), K("a\\b"), K("", "sq")]             # out of scope, counted
    return v


def core_vocabulary():
    """81 entries for the length-3 products: all kinds, every special once in key position."""
    v = [K("a"), K("b1"), K("1")]
    v += [K("a%sb" % c) for c in SPECIALS]
    v += [K(c) for c in (".", "/", " ", "'", "[", "(")]
    v += [K("a.b", "sq"), K("a b", "dq"), K("a'b", "dq")]
    v += [P("idx", 0), P("idx", -1), P("slice", 0, 2), P("slice", "a", "b"), P("anchor", "a")]
    v += [S_(False, "a", op, "b") for op in OPS]
    v += [S_(True, "a", "=", "b"), S_(True, "a", "=~", "b"), S_(True, "a", ">=", "b")]
    v += [S_(False, ".", "=", "b"), S_(False, ".", "^", "b"), S_(False, ".", "=~", "b"), S_(True, "a", "=", "b", "pre")]
    v += [S_(False, "a b", "=", "b"), S_(False, "a.b", "=", "b"), S_(False, "a[", "=", "b")]
    v += [S_(False, "a", "=", t) for t in ("a b", "a'b", "a]b", "a^b", "a.b")]
    v += [S_(False, "a", "=", "a b", "dq"), S_(False, "a", "=", 'a"b', "sq"), S_(False, "a", "=", "a^b", "dq"),
          S_(False, "a", "=", "", "dq"), S_(False, ".", "=~", "a b"), S_(False, "a", "=~", "^a/b$")]
    v += [P("all"), P("trav")]
    v += [KW(False, "name", ()), KW(False, "parent", ("2",)), KW(False, "has_child", ("a",)),
          KW(True, "has_child", ("a",)), KW(False, "max", ()), KW(False, "has_child", ("a b",), "sq"),
          KW(False, "has_child", ("a.b",)), KW(False, "max", ("a", "b"))]
    v += [C("", [K("a")]), C("", [K("a"), K("b1")]), C("", [S_(False, "a", "=", "b")]), C("", [K("a.b")]),
          C("", [C("", [K("a")]), C("+", [K("b1")])]), C("+", [K("b1")]), C("-", [K("b1")]), C("&", [K("b1")]),
          C("", [P("anchor", "a"), K("b1")])]
    v += [K("&a"), K("a*b"), K("a\\b")]                        # out of scope, counted
    return v


def medium_vocabulary():
    """compact + two-special-character keys and more terms / parameters (length-2 products only)."""
    v = compact_vocabulary()
    v += [K(a + b) for a in SPECIALS for b in SPECIALS]
    v += [K("a" + c, st) for c in SPECIALS for st in ("sq", "dq")]
    v += [S_(inv, "a%sb" % c, op, "b") for c in SPECIALS if c != "." for op in ("^", "<=") for inv in (False, True)]
    v += [S_(True, ".", op, "a%s" % c, st) for c in SPECIALS for op in ("%", ">") for st in ("esc", "sq")]
    v += [KW(False, "has_child", ("a%sb" % c,), st) for c in SPECIALS for st in ("esc", "sq", "dq")]
    v += [C("", [K("a%sb" % c)]) for c in SPECIALS]
    v += [C("", [K("a"), S_(True, ".", "=", "a b", "dq")]), C("-", [P("all")]), C("", [P("trav"), K("a")])]
    return v


def big_single_vocabulary(tier):
    """Single segments with exhaustive short texts; used alone, after key `a` and before key `b`."""
    kl, tl = (2, 1) if tier == "quick" else (3, 2)
    v = []
    for t in texts(KA, kl):
        v += [K(t, st) for st in ("esc", "sq", "dq")]
    small = list(texts(KA, 1))
    big = list(texts(KA, tl))
    for a in big:
        if a == ".":
            continue
        v += [S_(False, a, "=", "b"), S_(True, a, "^", "b")]
    for t in [""] + big:
        for st in ("esc", "sq", "dq"):
            if t == "" and st == "esc":
                continue
            v += [S_(False, "a", "=", t, st), S_(True, ".", "%", t, st), S_(False, "a", "<=", t, st)]
    for t in big:
        v.append(S_(False, "a", "=~", t))
        v.append(S_(True, ".", "=~", t))
    for t in big:
        for st in ("esc", "sq", "dq"):
            v.append(KW(False, "has_child", (t,), st))
    for a in small:
        for t in small:
            if a != ".":
                v.append(S_(False, a, "$", t))
    for name in KEYWORDS:
        for inv in (False, True):
            v += [KW(inv, name, ()), KW(inv, name, ("a",)), KW(inv, name, ("a", "b1"), "sq")]
    for op in OPS:
        for inv in (False, True):
            for attr in (".", "a", "a b", "a.b"):
                v += [S_(inv, attr, op, "b1"), S_(inv, attr, op, "b1", "pre")]
    return v


# ----------------------------------------------------------------------------------------------
# one case
_EVALUATORS = (ev_parse, ev_canon, ev_eq, ev_append_pop)
# one root cause whatever the segment: pop() only removes text that equals its own rendering
_NO_SHAPE = {"segment-still-present:appended-text-not-canonical"}


def check_case(entries, sep, neighbours=(), coll=None):
    """Evaluate all four clauses on one (segment sequence, notation).  `neighbours` is a list of
    (how, entries) with different segments.  Returns (signature, [(key, what, observed, expected)]);
    out-of-scope cases return (None, [])."""
    entries = list(entries)
    text = render(entries, sep)
    why = oos_class(entries, text, sep)
    if why:
        # observation only: does the excluded input happen to round-trip?
        try:
            ok = observe(YAMLPath(text)) == expected(entries)
        except _LIB_ERRORS:
            ok = False
        if coll is not None:
            coll.out_of_scope("%s:%s" % (why, "round-trips" if ok else "does-not-round-trip"))
        return None, []
    oos = []
    fails = []
    outcome = set()
    for ev in _EVALUATORS:
        for f in ev(entries, sep, oos):
            outcome.add((f.clause, f.kind))
            if f.kind in _NO_SHAPE:
                fails.append(("C08/%s/%s" % (f.clause, f.kind), f))
                continue
            kind, who = blame(ev, entries, sep, f.clause, f.kind)
            fails.append(("C08/%s/%s/%s" % (f.clause, kind, who), f))
    nbs = []
    if not any(k.startswith("C08/parse/") for k, _ in fails):
        for how, nb in neighbours:
            if (well_formed(nb) and not oos_class(nb, render(nb, sep), sep) and expected(nb) != expected(entries)
                    and not ev_parse(nb, sep)):
                nbs.append((how, nb))
    for f in ev_neighbours(entries, sep, nbs):
        outcome.add((f.clause, f.kind))
        # shape of a neighbour failure: only HOW the neighbour differs (the kinds are in `what`)
        f.detail = "%s (%s)" % (f.detail, f.shape)
        fails.append(("C08/%s/%s/%s" % (f.clause, f.kind, f.shape.split(":")[0]), f))
    if coll is not None:
        for o in oos:
            coll.out_of_scope(o)
    out = []
    for key, f in fails:
        out.append((key, "clause (%s) fails on %r (%s notation): %s %s" % (
            f.clause, text, "dot" if sep == "." else "slash", f.kind, f.detail), f.observed, f.expected))
    sig = (shape_of(entries), sep, tuple(sorted(outcome)))
    return sig, out


def _jsonable(x):
    if isinstance(x, tuple):
        return [_jsonable(i) for i in x]
    return x


def _tupled(x):
    if isinstance(x, list):
        return tuple(_tupled(i) for i in x)
    return x


def _do_case(coll, sigs, entries, neighbours, part):
    n = 0
    for sep in (".", "/"):
        sig, fails = check_case(entries, sep, neighbours, coll)
        n += 1
        if sig is None:
            continue
        sigs.add(sig)
        seen = set()
        for key, what, observed, exp in fails:
            if key in seen:
                continue
            seen.add(key)
            coll.witness(key, what, {"key": key, "entries": _jsonable(tuple(entries)), "sep": sep, "part": part,
                                     "neighbours": [[how, _jsonable(tuple(nb))] for how, nb in neighbours]},
                         _jsonable(observed) if isinstance(observed, (tuple, list)) else observed,
                         _jsonable(exp) if isinstance(exp, (tuple, list)) else exp)
    return n


def _finish(coll, n, sigs):
    coll.evaluations += n
    coll.distinct.update(harness.stable_hash(list(map(repr, s))) for s in sigs)
    return coll.result(internal=True)


_VOCAB = {}


def _vocab(name, tier):
    k = (name, tier)
    if k not in _VOCAB:
        _VOCAB[k] = {"core": core_vocabulary, "compact": compact_vocabulary, "medium": medium_vocabulary,
                     "big": lambda: big_single_vocabulary(tier)}[name]()
    return _VOCAB[k]


def _decode(i, v, n):
    out = []
    for _ in range(n):
        i, d = divmod(i, v)
        out.append(d)
    return out[::-1]


def _work_product(chunk, vname, tier, n):
    """chunk: list of (lo, hi) index ranges over vocab^n."""
    coll = harness.Collector()
    V = _vocab(vname, tier)
    v = len(V)
    sigs = set()
    cnt = 0
    for lo, hi in chunk:
        for i in range(lo, hi):
            idxs = _decode(i, v, n)
            entries = [V[j] for j in idxs]
            if not well_formed(entries):
                continue
            # neighbours for the inequality half of clause (3): next vocabulary entry in the last
            # position, the sequence without its last segment, the sequence with the first segment doubled
            nbs = []
            if n:
                other = V[(idxs[-1] + 1) % v]
                nbs.append(("last-replaced:%s-vs-%s" % (_sig_entry(entries[-1]), _sig_entry(other)), entries[:-1] + [other]))
                nbs.append(("without-last:%s" % _sig_entry(entries[-1]), entries[:-1]))
                nbs.append(("first-doubled:%s" % _sig_entry(entries[0]), entries[:1] + entries))
            cnt += _do_case(coll, sigs, entries, nbs, "%s^%d" % (vname, n))
            if len(coll.samples) < 2 and i % 97 == 0 and n:
                coll.samples.append({"dot": render(entries, "."), "slash": render(entries, "/"),
                                     "segments": _jsonable(tuple(expected(entries)))})
    return _finish(coll, cnt, sigs)


_CONTEXTS = ("alone", "after-key", "before-key")


def _work_big(chunk, tier):
    """chunk: list of (lo, hi) index ranges over big vocabulary x contexts."""
    coll = harness.Collector()
    V = _vocab("big", tier)
    v = len(V)
    sigs = set()
    cnt = 0

    def ctx(entry, c):
        if c == 0:
            return [entry]
        if c == 1:
            return [K("a"), entry]
        return [entry, K("b")]
    for lo, hi in chunk:
        for i in range(lo, hi):
            j, c = divmod(i, 3)
            entries = ctx(V[j], c)
            nbs = [("replaced:%s-vs-%s" % (_sig_entry(V[j]), _sig_entry(V[(j + d) % v])), ctx(V[(j + d) % v], c)) for d in (1, 7)]
            cnt += _do_case(coll, sigs, entries, nbs, "big/%s" % _CONTEXTS[c])
            if len(coll.samples) < 1 and i % 1013 == 5:
                coll.samples.append({"dot": render(entries, "."), "slash": render(entries, "/"),
                                     "segments": _jsonable(tuple(expected(entries)))})
    return _finish(coll, cnt, sigs)


def random_entries(rng, V, B):
    n = rng.randint(4, 6)
    while True:
        entries = [rng.choice(B) if rng.random() < 0.3 else rng.choice(V) for _ in range(n)]
        if rng.random() < 0.25:
            k = rng.randrange(n)
            inner = [rng.choice(V) for _ in range(rng.randint(1, 3))]
            if well_formed(inner) and not any(e[0][0] == "coll" and e[0][1] for e in inner[:1]):
                entries[k] = C("", inner)
        if well_formed(entries):
            return entries


def _work_random(chunk, tier, seed):
    coll = harness.Collector()
    V = _vocab("medium", tier)
    B = _vocab("big", tier)
    sigs = set()
    cnt = 0
    for stream, count in chunk:
        rng = random.Random("c08:%d:%d" % (seed, stream))
        for _ in range(count):
            entries = random_entries(rng, V, B)
            nb = list(entries)
            k = rng.randrange(len(nb))
            nb[k] = rng.choice(V)
            how = "replaced:%s-vs-%s" % (_sig_entry(entries[k]), _sig_entry(nb[k]))
            cnt += _do_case(coll, sigs, entries, [(how, nb)] if well_formed(nb) else [], "random")
    return _finish(coll, cnt, sigs)


# ----------------------------------------------------------------------------------------------
TIERS = {
    #            products: (vocabulary, length)                                    random
    "quick":    ((("compact", 0), ("compact", 1), ("compact", 2)), 3000),
    "thorough": ((("compact", 0), ("compact", 1), ("compact", 2), ("core", 3), ("medium", 2)), 150000),
}


def _ranges(total, size):
    return [(lo, min(total, lo + size)) for lo in range(0, total, size)]


def _selftest():
    """The renderer must agree with pathgen.render where both apply (harness bug otherwise)."""
    pv = pathgen.vocabulary()
    mine = []
    for seg in pv:
        if seg[0] == "glob" or (seg[0] == "search" and seg[3] == "=~" and "/" in seg[4]):
            continue
        mine.append(((seg[0],) + tuple(seg[1:]), "esc" if seg[0] in ("key", "search") else "-"))
    for a in mine[::7]:
        for b in mine[::11]:
            for sep in (".", "/"):
                raw = [a[0], b[0]]
                if pathgen.render(raw, sep) != render([a, b], sep):
                    raise AssertionError("renderers disagree: %r vs %r" % (pathgen.render(raw, sep), render([a, b], sep)))


def run(tier="quick", seed=0, jobs=None):
    _selftest()
    products, nrand = TIERS[tier]
    coll = harness.Collector(max_samples=8)
    sizes = {}
    vocab_sizes = {}
    for vname, n in products:
        v = len(_vocab(vname, tier))
        vocab_sizes[vname] = v
        total = v ** n
        sizes["%s^%d" % (vname, n)] = total
        for res in harness.pmap_chunks(_work_product, _ranges(total, 250), jobs=jobs, chunk=1,
                                       extra=(vname, tier, n)):
            coll.merge(res)
    bv = len(_vocab("big", tier))
    total = bv * 3
    sizes["big x 3 contexts"] = total
    for res in harness.pmap_chunks(_work_big, _ranges(total, 250), jobs=jobs, chunk=1, extra=(tier,)):
        coll.merge(res)
    per = 100
    streams = [(i, min(per, nrand - i * per)) for i in range((nrand + per - 1) // per)]
    for res in harness.pmap_chunks(_work_random, streams, jobs=jobs, chunk=1, extra=(tier, seed)):
        coll.merge(res)
    bounds = {
        "key_term_alphabet": KA, "vocabulary_sizes": vocab_sizes, "big_single_vocabulary": bv,
        "sequences": sizes, "max_sequence_length_exhaustive": max(n for _, n in products),
        "notations": ["dot", "slash"], "random_sequences": nrand, "random_length": [4, 6], "seed": seed,
        "big_key_text_len": 2 if tier == "quick" else 3, "big_term_text_len": 1 if tier == "quick" else 2,
    }
    rule = ("every well-formed sequence from the segment vocabularies (all kinds, all operators/inversions, every "
            "escapable special in key/attribute/term/parameter position, escape and demarcation styles): %s; every one "
            "of %d single segments with exhaustive short texts alone / after a key / before a key; %d seeded random "
            "sequences of 4..6 entries; each in dot and slash notation: (1) parse gives the segments, (2) canonical "
            "strings re-parse to the parsed segments in both notations and are fixed points, (3) == / != agree with "
            "segment equality (other notation, canonical, str operand, 3 neighbours), (4) append then pop restores "
            "the path" % (", ".join("%s(%d)^%d" % (vn, vocab_sizes[vn], n) for vn, n in products), bv, nrand))
    return coll.result(rule=rule, exhaustive=True, bounds=bounds)


def replay(inp):
    entries = list(_tupled(inp["entries"]))
    nbs = [(how, list(_tupled(nb))) for how, nb in inp.get("neighbours", [])]
    coll = harness.Collector(max_inputs_per_key=1)
    sig, fails = check_case(entries, inp["sep"], nbs, coll)
    if not fails:
        return None
    want = inp.get("key")
    for key, what, observed, exp in fails:
        if want is None or key == want:
            return {"key": key, "what": what, "inputs": [inp], "observed": _jsonable(observed) if isinstance(observed, (tuple, list)) else observed,
                    "expected": _jsonable(exp) if isinstance(exp, (tuple, list)) else exp, "count": 1,
                    "all_keys": sorted({f[0] for f in fails})}
    return None


if __name__ == "__main__":
    a = sys.argv[1:]
    if a and a[0] == "replay":
        print(json.dumps(replay(json.loads(a[1])), indent=1, default=repr))
    else:
        tier = a[0] if a else "quick"
        seed = int(a[1]) if len(a) > 1 else int(os.environ.get("VERIF_SEED", "0"))
        jobs = int(a[2]) if len(a) > 2 else None
        print(json.dumps(run(tier, seed, jobs), indent=1, default=repr))
