"""C19 -- EYAML key rotation re-keys every secret once and touches nothing else.

Bounded stand-in.  `yamlpath.commands.eyaml_rotate_keys.main()` is run in-process (patched
sys.argv/stdout/stderr, SystemExit caught) with `--eyaml /verif/rtc/fake_eyaml`, a
deterministic stand-in executable (keyed reversible cipher, the command-line protocol
EYAMLProcessor speaks; wrong key => non-zero exit), an OLD and a NEW key pair.

Documents: every assignment of slot kinds to the slots of a few block-YAML shapes
(hash values, list elements, nested hashes/lists, keys that need escaping):

    P plain text   I int   N null   B bool   AP anchored plain   RP alias of it
    E encrypted, plain one-line scalar       Q encrypted, double-quoted
    F encrypted, folded (>) over several lines   L encrypted, literal (|)
    A anchored encrypted (&secN ENC[...])    AF anchored encrypted folded
    R alias (*secN) of the most recent anchored encrypted slot

Contract after a run that exits 0 (statement):
  * the file still loads, same keys in the same order, same sequence lengths;
  * every slot that held an encrypted value holds a value that the stand-in decrypts under
    the NEW private key to the plaintext it had under the OLD key, and that the OLD key no
    longer decrypts;
  * nodes that were one shared (anchored/aliased) object are still one shared object and
    keep their anchor name; the number of decrypt / encrypt invocations of the executable
    equals the number of distinct secrets (an aliased secret is rotated once);
  * every other key / value (type-strict) / anchor is unchanged;
  * a file without any encrypted value keeps its bytes, inode and mtime and gets no .bak
    (run with --backup), alone or next to a file that has secrets;
  * with right keys and loadable input the run exits 0.
"Encrypted" is decided by the statement's rule (ignoring spaces and line breaks the text
starts with `ENC[`), implemented here by a character scan independent of the library.

`EYAMLProcessor.is_eyaml_value` is checked exhaustively on all strings of length <= 7 over
{space, newline, E, N, C, [, x} against that rule; non-strings must be "not encrypted";
tab / CR are recorded as not decided by the statement.
"""
import io
import itertools
import json
import os
import re
import random
import shutil
import sys
import traceback

from rtc import gen
from rtc.harness import Collector, pmap_chunks

MODULE = "c19"
FAKE_EYAML = os.path.join(os.path.dirname(os.path.abspath(__file__)), "fake_eyaml")
OLD_ID, NEW_ID = "old-pair-7", "new-pair-9"
KEYFILES = {"old_pub.pem": "FAKE-EYAML PUBLIC KEY %s\n" % OLD_ID, "old_priv.pem": "FAKE-EYAML PRIVATE KEY %s\n" % OLD_ID,
            "new_pub.pem": "FAKE-EYAML PUBLIC KEY %s\n" % NEW_ID, "new_priv.pem": "FAKE-EYAML PRIVATE KEY %s\n" % NEW_ID}

_FAKE = None


def fake():
    global _FAKE
    if _FAKE is None:
        import importlib.machinery
        import importlib.util
        ldr = importlib.machinery.SourceFileLoader("rtc_fake_eyaml", FAKE_EYAML)
        spec = importlib.util.spec_from_loader("rtc_fake_eyaml", ldr)
        _FAKE = importlib.util.module_from_spec(spec)
        ldr.exec_module(_FAKE)
    return _FAKE


def innermost_repo_frame(tb):
    import yamlpath
    root = os.path.dirname(os.path.abspath(yamlpath.__file__))
    best = None
    for fr in traceback.extract_tb(tb):
        fn = os.path.abspath(fr.filename)
        if fn.startswith(root):
            best = "%s:%s" % (os.path.relpath(fn, root), fr.name)
    return best or "outside-yamlpath"


def run_rotate(argv):
    from yamlpath.commands import eyaml_rotate_keys
    saved = (sys.argv, sys.stdout, sys.stderr)
    out, err = io.StringIO(), io.StringIO()
    sys.argv = ["eyaml-rotate-keys"] + [str(a) for a in argv]
    sys.stdout, sys.stderr = out, err
    code, exc = 0, None
    try:
        eyaml_rotate_keys.main()
    except SystemExit as ex:
        code = ex.code if ex.code is not None else 0
        if not isinstance(code, int):
            code = 1
    except Exception as ex:
        code = "EXC"
        exc = "%s@%s" % (type(ex).__name__, innermost_repo_frame(ex.__traceback__))
    finally:
        sys.argv, sys.stdout, sys.stderr = saved
    return {"code": code, "out": out.getvalue(), "err": err.getvalue(), "exc": exc}


# --------------------------------------------------------------------------
# the statement's marker rule (own implementation: a scan, no replace/startswith)
# --------------------------------------------------------------------------
def marker_rule(text):
    want = "ENC["
    i = 0
    for ch in text:
        if ch == " " or ch == "\n":
            continue
        if ch != want[i]:
            return False
        i += 1
        if i == len(want):
            return True
    return False


# --------------------------------------------------------------------------
# documents
# --------------------------------------------------------------------------
# shape: nested ("map", [(key, child), ...]) | ("seq", [child, ...]) | slot index (int)
SHAPES = {
    "hash2": ("map", [("k0", 0), ("k1", 1)]),
    "hash-list": ("map", [("k0", 0), ("lst", ("seq", [1, 2]))]),
    "list-hash": ("seq", [0, ("map", [("k", 1)])]),
    "nested": ("map", [("top", ("map", [("in0", 0), ("in1", 1)])), ("tail", 2)]),
    "lol": ("seq", [("seq", [0, 1]), 2]),
    "escaped-keys": ("map", [("x.y", 0), ("k e", 1), ("a/b", 2)]),
    "aoh": ("seq", [("map", [("name", 0), ("pw", 1)]), ("map", [("name", 2), ("pw", 3)])]),
}
ENC_KINDS = ("E", "Q", "F", "L", "A", "AF")
ALL_KINDS = ("P", "I", "N", "B", "AP", "RP", "E", "Q", "F", "L", "A", "AF", "R")
QUICK_KINDS = ("P", "N", "AP", "RP", "E", "F", "A", "AF", "R")


# plain (non-encrypted) scalars that YAML reads as timestamps / dates: offsets west and east of UTC with and without
# minutes, fractions, the space-separated form, a bare date -- each denotes one instant, written one way
TIMESTAMPS = ("2024-02-29T23:10:00-03:30", "2001-12-14 21:59:43.10 -00:45", "2024-03-01T00:10:00+05:45", "2002-12-14",
              "2001-12-14t21:59:43.5Z", "2024-12-31T23:59:59-09:30", "2001-12-15 2:59:43.10")


_TS_RE = re.compile(r"(\d{4})-(\d\d?)-(\d\d?)(?:(?:[Tt]|[ \t]+)(\d\d?):(\d\d):(\d\d)(?:\.(\d*))?(?:[ \t]*(Z|([-+])(\d\d?)(?::(\d\d))?))?)?")


def ts_meaning(m):
    """What a YAML 1.1 timestamp text denotes (own reading of the spec's grammar, not the library's constructor):
    ('date', y, m, d) or ('instant', UTC date-time, microseconds, offset in minutes or None)."""
    import datetime
    y, mo, d = int(m.group(1)), int(m.group(2)), int(m.group(3))
    if m.group(4) is None:
        return ("date", y, mo, d)
    frac = (m.group(7) or "")[:6]
    micro = int(frac.ljust(6, "0")) if frac else 0
    off = None
    if m.group(8) == "Z":
        off = 0
    elif m.group(9):
        off = (int(m.group(10)) * 60 + int(m.group(11) or 0)) * (-1 if m.group(9) == "-" else 1)
    t = datetime.datetime(y, mo, d, int(m.group(4)), int(m.group(5)), int(m.group(6))) - datetime.timedelta(minutes=off or 0)
    return ("instant", t.isoformat(), micro, off)


def ts_meanings(text):
    out = []
    for m in _TS_RE.finditer(text):
        try:
            out.append(ts_meaning(m))
        except ValueError:
            pass
    return out


def slot_count(shape):
    if isinstance(shape, int):
        return 1
    if shape[0] == "map":
        return sum(slot_count(c) for _, c in shape[1])
    return sum(slot_count(c) for c in shape[1])


def valid_kinds(kinds):
    have_a = have_ap = False
    for k in kinds:
        if k == "R" and not have_a:
            return False
        if k == "RP" and not have_ap:
            return False
        have_a = have_a or k in ("A", "AF")
        have_ap = have_ap or k == "AP"
    return True


def plaintext(i, kind):
    """Every other slot holds a multi-line secret with CR LF line ends and a bare CR (a key exported elsewhere):
    the plaintext is bytes to be carried over exactly, not text to be normalised."""
    tail = "\r\nsecond line\rthird\nfourth" if i % 2 else ""
    # every third slot BEGINS with blanks / a tab (an indented snippet, a passphrase with leading blanks): leading
    # whitespace is part of the plaintext (trailing whitespace is not carried by the unchanged code: from-code)
    head = ("  ", "\t ")[i % 2] if i % 3 == 2 else ""
    if kind in ("F", "AF", "L"):
        return "%slong secret number %d, long enough to need several lines%s" % (head, i, tail)
    return "%ssecret-%d pa$$word%s" % (head, i, tail)


def slot_render(kinds, i, indent):
    """Text that follows `key:` / `-` for slot i (starts with a space or is a block scalar)."""
    fe = fake()
    k = kinds[i]
    pad = " " * (indent + 2)
    if k == "P":
        return " plain%d" % i
    if k == "I":
        return " %d" % (40 + i)
    if k == "N":
        return " null"
    if k == "B":
        return " true"
    if k == "T":
        return " " + TIMESTAMPS[i % len(TIMESTAMPS)]
    if k == "AP":
        return " &pl%d anchored-plain%d" % (i, i)
    if k == "RP":
        j = max(x for x in range(i) if kinds[x] == "AP")
        return " *pl%d" % j
    if k == "R":
        j = max(x for x in range(i) if kinds[x] in ("A", "AF"))
        return " *sec%d" % j
    one = fe.encrypt_text(plaintext(i, k), OLD_ID, "string")
    if k == "E":
        return " " + one
    if k == "Q":
        return ' "%s"' % one
    if k == "A":
        return " &sec%d %s" % (i, one)
    blk = fe.encrypt_text(plaintext(i, k), OLD_ID, "block")
    lines = "".join("%s%s\n" % (pad, ln.strip()) for ln in blk.split("\n"))
    if k == "F":
        return " >\n" + lines.rstrip("\n")
    if k == "AF":
        return " &sec%d >\n%s" % (i, lines.rstrip("\n"))
    if k == "L":
        return " |\n" + lines.rstrip("\n")
    raise ValueError(k)


def render(shape, kinds, indent=0):
    pad = " " * indent
    out = []
    if shape[0] == "map":
        for key, child in shape[1]:
            ktxt = key if all(c.isalnum() for c in key) else '"%s"' % key
            if isinstance(child, int):
                out.append("%s%s:%s\n" % (pad, ktxt, slot_render(kinds, child, indent)))
            else:
                out.append("%s%s:\n%s" % (pad, ktxt, render(child, kinds, indent + 2)))
    else:
        for child in shape[1]:
            if isinstance(child, int):
                out.append("%s-%s\n" % (pad, slot_render(kinds, child, indent)))
            else:
                out.append("%s-\n%s" % (pad, render(child, kinds, indent + 2)))
    return "".join(out)


def doc_text(spec):
    return "# rotation test document\n" + render(SHAPES[spec["shape"]], spec["kinds"])


def build_specs(tier, seed):
    rng = random.Random(seed)
    specs = []
    kinds_pool = QUICK_KINDS if tier == "quick" else ALL_KINDS
    for name, shape in SHAPES.items():
        n = slot_count(shape)
        combos = [list(c) for c in itertools.product(kinds_pool, repeat=n) if valid_kinds(c)]
        if tier == "quick":
            budget = {"hash2": 81, "hash-list": 90, "list-hash": 40, "nested": 60, "lol": 50, "escaped-keys": 40, "aoh": 60}[name]
        else:
            budget = {"hash2": 10 ** 6, "hash-list": 700, "list-hash": 10 ** 6, "nested": 500, "lol": 400, "escaped-keys": 300,
                      "aoh": 500}[name]
        if len(combos) > budget:
            # always keep the combos made of anchors/aliases (the interesting corner), sample the rest
            special = [c for c in combos if "R" in c and len(set(c)) <= 3][:budget // 3]
            rest = [c for c in combos if c not in special]
            combos = special + rng.sample(rest, budget - len(special))
        for c in combos:
            specs.append({"kind": "doc", "shape": name, "kinds": c})
        # timestamps among the untouched values: at each slot in turn, secrets in the other slots; shifted so that every
        # timestamp text is used (slot i shows TIMESTAMPS[i mod 7])
        for j in range(n):
            for enc in ("E", "A"):
                specs.append({"kind": "doc", "shape": name, "kinds": ["T" if i == j else enc for i in range(n)]})
        specs.append({"kind": "doc", "shape": name, "kinds": ["T"] * (n - 1) + ["E"]})
    return specs


# --------------------------------------------------------------------------
# analysis of a loaded document
# --------------------------------------------------------------------------
def load_rt(text):
    from yamlpath.common import Parsers
    log = gen.QuietLog()
    data, ok = Parsers.get_yaml_data(Parsers.get_yaml_editor(), log, text, literal=True)
    return data, ok, (log.msgs[0][1] if log.msgs else "")


def walk(node, path=()):
    """[(path, node)] for every node (containers included), document order."""
    out = [(path, node)]
    if isinstance(node, dict):
        for k, v in node.items():
            out.extend(walk(v, path + (("k", str(k)),)))
    elif isinstance(node, list):
        for i, v in enumerate(node):
            out.extend(walk(v, path + (("i", i),)))
    return out


def anchor_name(node):
    a = getattr(node, "anchor", None)
    v = getattr(a, "value", None)
    return v if v else None


def typed(node):
    p = gen.plain(node)
    return (type(p).__name__, p)


def _load_class(msg):
    for needle, cls in (("Duplicate YAML Anchor", "duplicate-anchor"), ("Duplicate Hash key", "duplicate-key"),
                        ("parsing error", "parse-error"), ("syntax error", "syntax-error"),
                        ("composition error", "composition-error"), ("construction error", "construction-error")):
        if needle in msg:
            return cls
    return "other"


def position_class(spec, path):
    """Where a slot lives: hash-value / list-element (+ the slot kind)."""
    return "list-element" if path and path[-1][0] == "i" else "hash-value"


def check_doc(col, wd, spec):
    fe = fake()
    text = doc_text(spec)
    kinds = spec["kinds"]
    has_secret = any(k in ENC_KINDS for k in kinds)
    n_secrets = sum(1 for k in kinds if k in ENC_KINDS)
    pre, ok, msg = load_rt(text)
    if not ok:
        raise RuntimeError("generator produced an unloadable document (%s):\n%s" % (msg, text))
    fname = os.path.join(wd, "doc.yaml")
    with open(fname, "w", encoding="utf-8") as fh:
        fh.write(text)
    t0 = 1_000_000_000
    os.utime(fname, (t0, t0))
    st0 = os.stat(fname)
    logf = os.path.join(wd, "eyaml.log")
    if os.path.exists(logf):
        os.remove(logf)
    os.environ["FAKE_EYAML_LOG"] = logf
    argv = ["--eyaml", FAKE_EYAML, "-i", os.path.join(wd, "old_priv.pem"), "-c", os.path.join(wd, "old_pub.pem"),
            "-r", os.path.join(wd, "new_priv.pem"), "-u", os.path.join(wd, "new_pub.pem")]
    if spec.get("backup", True):
        argv.append("--backup")
    try:
        r = run_rotate(argv + [fname])
    finally:
        os.environ.pop("FAKE_EYAML_LOG", None)
    calls = []
    if os.path.exists(logf):
        with open(logf, encoding="utf-8") as fh:
            calls = [ln.split()[0] for ln in fh if ln.strip()]
    with open(fname, encoding="utf-8") as fh:
        after = fh.read()
    st1 = os.stat(fname)
    bak_exists = os.path.exists(fname + ".bak")
    kind_sig = tuple(sorted(set(kinds)))
    col.case(("doc", spec["shape"], tuple(kinds), r["code"], after == text),
             sample={"shape": spec["shape"], "kinds": kinds, "exit": r["code"], "eyaml_calls": calls,
                     "before": text[:400], "after": after[:400]} if "R" in kinds and "F" in kinds else None)
    for n in ("doc.yaml", "doc.yaml.bak", "eyaml.log"):
        p = os.path.join(wd, n)
        if os.path.exists(p):
            os.remove(p)
    inp = dict(spec)

    if r["code"] != 0:
        col.witness("C19/rotation-fails-on-valid-input/exit-%s%s" % (r["code"], ("-" + r["exc"]) if r["exc"] else ""),
                    "right keys, loadable document, but eyaml-rotate-keys does not exit 0", inp,
                    observed={"exit": r["code"], "err": r["err"][:300], "exc": r["exc"]}, expected="exit 0")
        return
    if not has_secret:
        if after != text or st1.st_mtime_ns != st0.st_mtime_ns or st1.st_ino != st0.st_ino:
            col.witness("C19/file-without-secrets-rewritten", "no ENC[ value in the file, yet it was rewritten", inp,
                        observed={"bytes_same": after == text, "mtime_same": st1.st_mtime_ns == st0.st_mtime_ns},
                        expected="bytes, inode and mtime unchanged")
        if bak_exists:
            col.witness("C19/file-without-secrets-backed-up", "no ENC[ value in the file, yet a .bak appeared", inp,
                        observed="doc.yaml.bak exists", expected="no backup")
        if calls:
            col.witness("C19/eyaml-invoked-without-secrets", "the eyaml executable ran although there is no secret", inp,
                        observed=calls, expected=[])
        return
    post, ok, msg = load_rt(after)
    if not ok:
        col.witness("C19/rotated-file-does-not-load/%s" % _load_class(msg),
                    "the rotated file cannot be loaded any more", inp, observed={"after": after[:500], "error": msg[:200]},
                    expected="a loadable document")
        return
    for i, k in enumerate(kinds):
        # (text level, independent of the library's own reading of the value)
        if k == "T" and ts_meanings(TIMESTAMPS[i % len(TIMESTAMPS)])[0] not in ts_meanings(after):
            col.witness("C19/plain-value-changed/timestamp-instant", "a non-encrypted timestamp denotes another instant / offset after rotation", inp,
                        observed={"after": after[:400], "timestamps-read": [list(x) for x in ts_meanings(after)]},
                        expected={"text": TIMESTAMPS[i % len(TIMESTAMPS)], "meaning": list(ts_meanings(TIMESTAMPS[i % len(TIMESTAMPS)])[0])})
    wpre, wpost = walk(pre), walk(post)
    if [p for p, _ in wpre] != [p for p, _ in wpost]:
        col.witness("C19/structure-keys-or-order-changed", "keys / order / lengths differ after rotation", inp,
                    observed=[str(p) for p, _ in wpost][:30], expected=[str(p) for p, _ in wpre][:30])
        return
    # ---- per node
    for (path, a), (_, b) in zip(wpre, wpost):
        if isinstance(a, (dict, list)):
            if type(gen.plain(a)) is not type(gen.plain(b)):
                col.witness("C19/container-kind-changed", "container changed kind", inp, observed=str(path), expected=None)
            if anchor_name(a) != anchor_name(b):
                col.witness("C19/anchor-changed/container", "anchor of a container changed", inp,
                            observed=anchor_name(b), expected=anchor_name(a))
            continue
        was_enc = isinstance(a, str) and marker_rule(str(a))
        where = position_class(spec, path)
        style = _style_of(a)
        if not was_enc:
            if typed(a) != typed(b):
                col.witness("C19/plain-value-changed/%s" % where, "a non-encrypted value changed", inp,
                            observed={"path": str(path), "after": repr(gen.plain(b))[:100]}, expected=repr(gen.plain(a))[:100])
            if anchor_name(a) != anchor_name(b):
                col.witness("C19/anchor-changed/plain-value", "the anchor of a non-encrypted value changed", inp,
                            observed=anchor_name(b), expected=anchor_name(a))
            continue
        cls = "%s/%s%s" % (where, style, "/anchored" if anchor_name(a) else "")
        old_plain = fe.decrypt_text(str(a), OLD_ID)
        if not (isinstance(b, str) and marker_rule(str(b))):
            col.witness("C19/secret-no-longer-encrypted/%s" % cls, "an encrypted value is not an ENC[ value afterwards", inp,
                        observed={"path": str(path), "after": repr(gen.plain(b))[:120]}, expected="ENC[...] under the new key")
            continue
        try:
            new_plain = fe.decrypt_text(str(b), NEW_ID)
        except ValueError as ex:
            still_old = _decrypts(fe, str(b), OLD_ID)
            col.witness("C19/secret-not-decryptable-with-new-key/%s/%s" % (cls, "still-old-key" if still_old else "garbled"),
                        "a value does not decrypt under the new key after rotation", inp,
                        observed={"path": str(path), "after": str(b)[:120], "error": str(ex)}, expected=old_plain)
            continue
        if new_plain != old_plain:
            col.witness("C19/plaintext-changed-by-rotation/%s" % cls, "new-key plaintext differs from old-key plaintext", inp,
                        observed={"path": str(path), "new": new_plain}, expected=old_plain)
        if _decrypts(fe, str(b), OLD_ID):
            col.witness("C19/secret-still-decrypts-with-old-key/%s" % cls, "old key still opens the rotated value", inp,
                        observed={"path": str(path)}, expected="old key fails")
        if anchor_name(a) != anchor_name(b):
            col.witness("C19/anchor-changed/secret/%s" % where, "the anchor name of an encrypted value changed or was lost", inp,
                        observed={"path": str(path), "after": anchor_name(b)}, expected=anchor_name(a))
    # ---- sharing
    groups = {}
    for (path, a) in wpre:
        if anchor_name(a) is not None:
            groups.setdefault(id(a), []).append(path)
    post_by_path = dict(wpost)
    for paths in groups.values():
        if len(paths) < 2:
            continue
        ids = {id(post_by_path[p]) for p in paths}
        if len(ids) != 1:
            enc = isinstance(post_by_path[paths[0]], str) and marker_rule(str(post_by_path[paths[0]]))
            wh = "+".join(sorted({position_class(spec, p) for p in paths}))
            col.witness("C19/shared-value-no-longer-shared/%s/%s" % ("secret" if enc else "plain", wh),
                        "anchor and alias were one node before the rotation and are separate values now", inp,
                        observed={"paths": [str(p) for p in paths], "after": after[:400]}, expected="still one aliased node")
    # ---- rotated once
    want = ["decrypt", "encrypt"] * n_secrets
    if sorted(calls) != sorted(want):
        col.witness("C19/secret-not-rotated-exactly-once/%s" % ("with-alias" if "R" in kinds else "no-alias"),
                    "number of decrypt/encrypt invocations differs from the number of distinct secrets", inp,
                    observed={"decrypt": calls.count("decrypt"), "encrypt": calls.count("encrypt")},
                    expected={"decrypt": n_secrets, "encrypt": n_secrets})
    if spec.get("backup", True) and not bak_exists:
        col.out_of_scope("rotated-with---backup-but-no-bak")     # C17's clause, only recorded here


def _decrypts(fe, text, key_id):
    try:
        fe.decrypt_text(text, key_id)
        return True
    except ValueError:
        return False


def _style_of(node):
    n = type(node).__name__
    return {"FoldedScalarString": "folded", "LiteralScalarString": "literal", "DoubleQuotedScalarString": "double-quoted",
            "SingleQuotedScalarString": "single-quoted", "PlainScalarString": "plain"}.get(n, "plain")


# --------------------------------------------------------------------------
# several files in one invocation: the secret-less one is left alone
# --------------------------------------------------------------------------
def check_multi(col, wd, spec):
    fe = fake()
    plain_text = "# no secrets here\na: 1\nb:\n  - x\n  - &p y\n  - *p\nc: not ENC[ at the start\n"
    sec_text = "s: %s\nl:\n  - plain\n  - %s\n" % (fe.encrypt_text("alpha", OLD_ID), fe.encrypt_text("beta", OLD_ID))
    order = spec["order"]
    files = {"plain.yaml": plain_text, "secret.yaml": sec_text}
    # two more files stamped from one template: the SAME anchor name holds a different secret in each
    twins = {}
    for n, (p1, p2) in (("site_a.yaml", ("gamma", "delta")), ("site_b.yaml", ("epsilon", "zeta"))):
        if n in order:
            twins[n] = "db:\n  password: &pw %s\n  replica: *pw\ntoken: %s\nnote: plain\n" % (
                fe.encrypt_text(p1, OLD_ID), fe.encrypt_text(p2, OLD_ID))
    files.update(twins)
    t0 = 1_000_000_000
    for n, t in files.items():
        with open(os.path.join(wd, n), "w", encoding="utf-8") as fh:
            fh.write(t)
        os.utime(os.path.join(wd, n), (t0, t0))
    st0 = os.stat(os.path.join(wd, "plain.yaml"))
    argv = ["-x", FAKE_EYAML, "-i", os.path.join(wd, "old_priv.pem"), "-c", os.path.join(wd, "old_pub.pem"),
            "-r", os.path.join(wd, "new_priv.pem"), "-u", os.path.join(wd, "new_pub.pem")]
    if spec["backup"]:
        argv.append("-b")
    r = run_rotate(argv + [os.path.join(wd, n) for n in order])
    st1 = os.stat(os.path.join(wd, "plain.yaml"))
    with open(os.path.join(wd, "plain.yaml"), encoding="utf-8") as fh:
        plain_after = fh.read()
    with open(os.path.join(wd, "secret.yaml"), encoding="utf-8") as fh:
        sec_after = fh.read()
    twins_after = {}
    for n in twins:
        with open(os.path.join(wd, n), encoding="utf-8") as fh:
            twins_after[n] = fh.read()
    listing = sorted(os.listdir(wd))
    for n in listing:
        if n not in KEYFILES:
            os.remove(os.path.join(wd, n))
    col.case(("multi", tuple(order), spec["backup"], r["code"]))
    if r["code"] == 0:
        for n, text in twins_after.items():
            doc = gen.load(text)
            vals = {"db.password": doc["db"]["password"], "db.replica": doc["db"]["replica"], "token": doc["token"]}
            stale = sorted(k for k, v in vals.items() if _decrypts(fe, str(v), OLD_ID) or not _decrypts(fe, str(v), NEW_ID))
            if stale:
                col.witness("C19/secret-not-rotated/multi-file-same-anchor-name", "in a multi-file run a secret of a later file "
                            "still decrypts under the old keys (or not under the new ones)", spec,
                            observed={"file": n, "values": stale}, expected="every encrypted value re-keyed")
            if doc["db"]["password"] is not doc["db"]["replica"]:
                col.witness("C19/anchored-secret-no-longer-shared/multi-file", "anchor/alias pair split by the rotation", spec,
                            observed={"file": n}, expected="alias still shares the anchored value")
            if doc.get("note") != "plain":
                col.witness("C19/plaintext-changed/multi-file", "a non-encrypted value changed", spec, observed={"file": n}, expected="plain")
    if r["code"] != 0:
        col.witness("C19/rotation-fails-on-valid-input/multi-file-exit-%s" % r["code"], "multi-file run fails", spec,
                    observed={"exit": r["code"], "err": r["err"][:200], "exc": r["exc"]}, expected=0)
        return
    if plain_after != plain_text or st1.st_mtime_ns != st0.st_mtime_ns or st1.st_ino != st0.st_ino:
        col.witness("C19/file-without-secrets-rewritten", "secret-less file rewritten in a multi-file run", spec,
                    observed={"bytes_same": plain_after == plain_text}, expected="untouched")
    if "plain.yaml.bak" in listing:
        col.witness("C19/file-without-secrets-backed-up", "secret-less file backed up in a multi-file run", spec,
                    observed=listing, expected="no plain.yaml.bak")
    if "secret.yaml" in order and sec_after == sec_text:
        col.witness("C19/file-with-secrets-not-rotated/multi-file", "the file with secrets was left as it was", spec,
                    observed=sec_after[:200], expected="rotated")


# --------------------------------------------------------------------------
# is_eyaml_value, exhaustive
# --------------------------------------------------------------------------
ALPHABET = (" ", "\n", "E", "N", "C", "[", "x")


def check_marker_chunk(col, prefix, max_len):
    from yamlpath.eyaml import EYAMLProcessor
    f = EYAMLProcessor.is_eyaml_value
    n = 0
    trues = 0
    rest = max_len - len(prefix)
    for ln in range(0, rest + 1):
        for tail in itertools.product(ALPHABET, repeat=ln):
            s = prefix + "".join(tail)
            n += 1
            want = marker_rule(s)
            got = f(s)
            trues += 1 if want else 0
            if got is not want:
                first = next((c for c in s if c not in " \n"), "")
                cls = ("false-positive" if got else "false-negative") + "/" + (
                    "leading-layout" if s[:1] in (" ", "\n") else "inner-layout" if (" " in s or "\n" in s) else "compact")
                col.witness("C19/is_eyaml_value/%s" % cls, "marker recognition differs from the statement's rule",
                            {"kind": "marker", "value": s}, observed=got, expected=want)
    col.evaluations += n
    col.distinct.add("marker/%r/%d" % (prefix, trues))


def check_marker_misc(col):
    from yamlpath.eyaml import EYAMLProcessor
    f = EYAMLProcessor.is_eyaml_value
    for v, label in ((None, "None"), (5, "int"), (True, "bool"), (["ENC[x]"], "list"), ({"ENC[": 1}, "dict"), (b"ENC[x]", "bytes")):
        col.case(("marker-nonstring", label))
        try:
            got = f(v)
        except Exception as ex:
            col.witness("C19/is_eyaml_value/non-string-raises-%s" % type(ex).__name__, "non-string value raises",
                        {"kind": "marker-nonstring", "label": label}, observed=repr(ex), expected=False)
            continue
        if got is not False:
            col.witness("C19/is_eyaml_value/non-string-reported-encrypted", "a non-string is reported as encrypted",
                        {"kind": "marker-nonstring", "label": label}, observed=got, expected=False)
    for s in ("\tENC[x]", "\rENC[x]", "E\tNC[x]", "\r\nENC[x]", "ENC\r\n[x]"):
        col.case(("marker-tabcr", s))
        col.out_of_scope("is_eyaml_value/tab-or-CR-not-decided-by-statement(%s)" % ("true" if f(s) else "false"))
    # a loaded folded / literal scalar really is recognised (ties the rule to what the loader produces)
    data, ok, _ = load_rt("f: >\n  ENC[PKCS7,AAAA\n  BBBB]\nl: |\n  ENC[PKCS7,AAAA\n  BBBB]\nq: ' ENC[x]'\nn: xENC[\n")
    for key, want in (("f", True), ("l", True), ("q", True), ("n", False)):
        col.case(("marker-loaded", key))
        if f(data[key]) is not want:
            col.witness("C19/is_eyaml_value/loaded-%s-scalar" % _style_of(data[key]), "loaded scalar misjudged",
                        {"kind": "marker-loaded", "key": key}, observed=f(data[key]), expected=want)


# --------------------------------------------------------------------------
# workers / API
# --------------------------------------------------------------------------
def _workdir():
    wd = os.path.join("/tmp", MODULE, str(os.getpid()))
    os.makedirs(wd, exist_ok=True)
    for n, t in KEYFILES.items():
        with open(os.path.join(wd, n), "w", encoding="utf-8") as fh:
            fh.write(t)
    return wd


def _dispatch(col, wd, item):
    k = item["kind"]
    if k == "doc":
        check_doc(col, wd, item)
    elif k == "multi":
        check_multi(col, wd, item)
    elif k == "marker-chunk":
        check_marker_chunk(col, item["prefix"], item["max_len"])
    elif k == "marker-misc":
        check_marker_misc(col)
    elif k == "marker":
        check_marker_chunk(col, item["value"], len(item["value"]))
    elif k in ("marker-nonstring", "marker-loaded"):
        check_marker_misc(col)
    else:
        raise ValueError(k)


def _work(chunk):
    wd = _workdir()
    col = Collector(max_samples=2)
    try:
        for item in chunk:
            _dispatch(col, wd, item)
    finally:
        shutil.rmtree(wd, ignore_errors=True)
    return col.result(internal=True)


def _selftest_fake():
    """The stand-in must behave like a keyed cipher, or nothing below means anything."""
    import subprocess
    wd = _workdir()
    try:
        enc = subprocess.run([FAKE_EYAML, "encrypt", "--quiet", "--stdin", "--output=block",
                              "--pkcs7-public-key=" + os.path.join(wd, "old_pub.pem")], input=b"round trip", stdout=subprocess.PIPE,
                             check=True).stdout
        dec = subprocess.run([FAKE_EYAML, "decrypt", "--quiet", "--stdin", "--pkcs7-private-key=" + os.path.join(wd, "old_priv.pem"),
                              "--pkcs7-public-key=" + os.path.join(wd, "old_pub.pem")], input=enc, stdout=subprocess.PIPE, check=True).stdout
        bad = subprocess.run([FAKE_EYAML, "decrypt", "--quiet", "--stdin", "--pkcs7-private-key=" + os.path.join(wd, "new_priv.pem")],
                             input=enc, stdout=subprocess.PIPE, stderr=subprocess.PIPE)
        if dec != b"round trip" or bad.returncode == 0 or bad.stdout:
            raise RuntimeError("fake_eyaml self-test failed: %r %r %r" % (dec, bad.returncode, bad.stdout))
        if fake().decrypt_text(enc.decode(), OLD_ID) != "round trip":
            raise RuntimeError("fake_eyaml module/executable disagree")
    finally:
        shutil.rmtree(wd, ignore_errors=True)


def run(tier="quick", seed=0, jobs=None):
    if not os.access(FAKE_EYAML, os.X_OK):
        raise RuntimeError("stand-in eyaml executable missing or not executable: " + FAKE_EYAML)
    _selftest_fake()
    specs = build_specs(tier, seed)
    items = list(specs)
    for order in (["plain.yaml", "secret.yaml"], ["secret.yaml", "plain.yaml"], ["plain.yaml"]):
        for backup in (True, False):
            if order == ["plain.yaml"]:
                continue
            items.append({"kind": "multi", "order": order, "backup": backup})
    for order in (["site_a.yaml", "site_b.yaml"], ["site_b.yaml", "plain.yaml", "site_a.yaml"], ["secret.yaml", "site_a.yaml", "site_b.yaml"]):
        items.append({"kind": "multi", "order": order, "backup": False})
    max_len = 7
    for pre in itertools.product(ALPHABET, repeat=2):
        items.append({"kind": "marker-chunk", "prefix": "".join(pre), "max_len": max_len})
    # strings shorter than the prefix length
    items.append({"kind": "marker-chunk", "prefix": "", "max_len": 1})
    items.append({"kind": "marker-misc"})
    random.Random(seed).shuffle(items)
    total = Collector(max_samples=6)
    for part in pmap_chunks(_work, items, jobs=jobs, chunk=max(4, len(items) // 128)):
        total.merge(part)
    try:
        os.rmdir(os.path.join("/tmp", MODULE))
    except OSError:
        pass
    per_shape = {}
    for s in specs:
        per_shape[s["shape"]] = per_shape.get(s["shape"], 0) + 1
    n_marker = sum(len(ALPHABET) ** k for k in range(0, max_len + 1))
    return total.result(
        rule=("eyaml_rotate_keys.main() with the stand-in eyaml over block-YAML documents = shapes x slot-kind assignments "
              "(plain/int/null/bool/anchored plain+alias; encrypted plain, double-quoted, folded, literal, anchored, anchored "
              "folded, alias of an anchored secret; every other secret a multi-line plaintext with CR LF and a bare CR, every third one beginning with blanks / a tab); decrypt-with-new == decrypt-with-old, old key fails, sharing kept, "
              "invocation count == distinct secrets, everything else equal; secret-less files untouched (bytes, inode, mtime, "
              "no .bak); is_eyaml_value == 'ignoring space/newline starts with ENC[' on all %d strings of length <= %d over %r"
              % (n_marker, max_len, "".join(ALPHABET))),
        exhaustive=(tier != "quick"),
        bounds={"tier": tier, "seed": seed, "documents_per_shape": per_shape, "slot_kinds": list(QUICK_KINDS if tier == "quick" else ALL_KINDS),
                "marker_alphabet": list(ALPHABET), "marker_max_len": max_len, "marker_strings": n_marker,
                "exhaustive_over": "is_eyaml_value strings (both tiers); slot-kind assignments of shapes hash2 and list-hash "
                                   "(thorough); other shapes sampled with the seed"},
    )


def replay(inp):
    wd = _workdir()
    col = Collector()
    try:
        _dispatch(col, wd, inp)
    finally:
        shutil.rmtree(wd, ignore_errors=True)
    ws = list(col.witnesses.values())
    return ws[0] if ws else None


if __name__ == "__main__":
    tier = sys.argv[1] if len(sys.argv) > 1 else "quick"
    seed = int(sys.argv[2]) if len(sys.argv) > 2 else 0
    jobs = int(sys.argv[3]) if len(sys.argv) > 3 else None
    print(json.dumps(run(tier, seed, jobs), indent=1, default=repr))
