"""C13 - search keywords select by their definitions (max/min/unique/distinct/has_child/parent/name).

Definitional oracle (Python max/min, Counter, first occurrence, tree ancestry - written from the
statement and the README "Search Keywords" list) against the REAL query results of
`Processor.get_nodes("<path>[<keyword>(<param>)]", mustexist=True)`:

collections (check "coll")
    seq : every sequence of length 1..L of same-kind scalars with repeats (ints {-1,2,10},
          strs {B,a,b}, floats {-0.5,2.0,10.5}); L = 5 (quick 4)
    aoh : every Array-of-Hashes of length 1..L over the members {a: v1},{a: v2},{a: v3} (present,
          repeated), {b: 1} (attribute absent), {a: null}; per value kind
    hoh : the same member sequences as values of a hash k0..k4
    each at the document root and nested under a key (quick: nested up to length 3); x keyword x
    inversion x parameter present/absent.
      max/min   : exactly the members whose value/attribute is greatest/least; inverted exactly
                  the others (order not prescribed)
      unique    : members whose value occurs once; inverted those occurring more than once
      distinct  : the first member of each group of equal values
      has_child : exactly the hashes having (inverted: lacking) the key - on the AoH directly, via
                  `*` on AoH and hash-of-hashes, and on every single member hash
    from-code (README silent; a disagreement is counted out of scope, never a witness):
      - a member WITHOUT the attribute has no value: it is among "the others" of max/min and in
        neither result of unique/distinct (this follows from the statement as well);
      - a NULL attribute: accepted as a value of its own (unique/distinct), ignored, or as the
        extreme (max/min: result may be the extreme of the non-null values, the null members, or
        both) - any other result breaks the statement whatever the treatment of null;
      - parameter given on a list of scalars / missing on hashes, inverted distinct(), inverted
        name()/parent(), name(x), parent(0): YAMLPathException or whatever the code does.
parent / name (check "tree")
    every node of every document of rtc.gen.trees(N <= 6 (quick: N <= 4 and 800 sampled with N = 5),
    depth <= 4, keys {a,b}, scalars {1,x}) addressed by its explicit path; `[parent(n)]` for n = absent, 1..depth+2:
    the n-th ancestor (node, and the coordinates under which the ancestor itself is held), and a
    YAMLPathException when n exceeds the depth; `[name()]`: the key or index holding the node.

Results are compared by position and identity through NodeCoords (.node, .parent, .parentref).
"""
import itertools
import json
import random
import sys
import traceback
from collections import Counter

from rtc import gen
from rtc.harness import Collector, pmap_chunks

VALUE_KINDS = {
    "int": (-1, 2, 10),
    "str": ("B", "a", "b"),
    "float": (-0.5, 2.0, 10.5),
    # a falsy extreme (0 as the least / the greatest value, the empty string as the least text)
    "zero": (0, 3, -2),
    "blank": ("", "a", "B"),
}
ATTR = "a"
OTHER = "b"


def repo_frame(tb):
    where = "outside-yamlpath"
    for fs in traceback.extract_tb(tb):
        fn = fs.filename.replace("\\", "/")
        if "/yamlpath/" in fn:
            where = "%s:%s" % (fn.split("/yamlpath/")[-1], fs.name)
    return where


def query(data, path):
    """-> ("ok", [NodeCoords]) | ("ype", text) | ("raise", ExcName, where, text)"""
    from yamlpath import Processor
    from yamlpath.exceptions import YAMLPathException
    proc = Processor(gen.quiet_logger(), data)
    try:
        return ("ok", list(proc.get_nodes(path, mustexist=True)))
    except YAMLPathException as ex:
        if type(ex).__name__ == "UnmatchedYAMLPathException":
            return ("ok", [])
        return ("ype", str(ex))
    except Exception as ex:
        return ("raise", type(ex).__name__, repo_frame(sys.exc_info()[2]), str(ex))


def kw_path(prefix, kw, inv, param):
    return "%s[%s%s(%s)]" % (prefix, "!" if inv else "", kw, "" if param is None else param)


def navigate(data, coll_path):
    node = data
    for ref in coll_path:
        node = node[ref]
    return node


# ---------------------------------------------------------------------------------------
# collections
# ---------------------------------------------------------------------------------------
def members_of(coll, shape):
    if shape == "hoh":
        return list(coll.items())
    return list(enumerate(coll))


def refs_of(col, key, what, inp, coll, res, label):
    """Map NodeCoords results to member refs; check identity/position.  None if a witness was filed."""
    out = []
    for nc in res:
        ok = nc.parent is coll
        if ok:
            try:
                ok = coll[nc.parentref] is nc.node
            except Exception:
                ok = False
        if not ok:
            col.witness("%s-result-is-not-a-member-at-its-position" % key,
                        what + ": a result is not (node, parent, parentref) of a member of the collection", inp,
                        observed={"which": label, "parentref": repr(getattr(nc, "parentref", None)), "node": repr(nc.node)},
                        expected="a member of the collection")
            return None
        out.append(nc.parentref)
    if len(set(map(repr, out))) != len(out):
        col.witness("%s-member-returned-twice" % key, what + ": a member is returned more than once", inp,
                    observed={"which": label, "refs": [repr(r) for r in out]}, expected="each member at most once")
        return None
    return out


def rset(refs):
    return sorted(repr(r) for r in refs)


def check_coll(col, doc_text, shape, coll_path, kw, param, data=None):
    """One (collection, keyword, parameter): runs the plain and the inverted query."""
    if data is None:
        data = gen.load(doc_text)
    coll = navigate(data, coll_path)
    prefix = "".join(coll_path)            # coll_path is [] or ["k"]
    inp = {"check": "coll", "doc": doc_text, "shape": shape, "coll_path": list(coll_path), "kw": kw, "param": param}
    members = members_of(coll, shape)
    all_refs = [r for r, _ in members]
    if shape == "seq":
        has = {repr(r): True for r, _ in members}
        val = {repr(r): m for r, m in members}
    else:
        has = {repr(r): (param in m) for r, m in members} if param is not None else {}
        val = {repr(r): (m[param] if param in m else None) for r, m in members} if param is not None else {}
    res = {}
    for inv in (False, True):
        p = kw_path(prefix, kw, inv, param)
        res[inv] = (p, query(data, p))
    shape_sig = (shape, len(members), bool(coll_path))
    key = "C13/%s" % kw
    what = "[%s(%s)] on %s" % (kw, "" if param is None else param, shape)

    # -- cases the statement does not define: parameter misuse, inverted distinct (from-code)
    undefined = ((shape == "seq" and param is not None) or (shape != "seq" and param is None))
    for inv in (False, True):
        p, r = res[inv]
        if undefined or (kw == "distinct" and inv):
            col.case(("coll-undefined", kw, inv, shape, param is None, r[0]))
            col.out_of_scope("undefined-by-statement:%s%s-%s-param-%s->%s" % (
                "!" if inv else "", kw, shape, "absent" if param is None else "present",
                r[0] if r[0] != "raise" else "raise-%s@%s" % (r[1], r[2])))
            res[inv] = None
            continue
        if r[0] == "raise":
            col.case(("coll", kw, inv, shape_sig, "raise", r[1], r[2]))
            col.witness("%s-raises-%s@%s" % (key, r[1], r[2]), what + " raised a non-library exception",
                        dict(inp, inverted=inv), observed="%s: %s" % (r[1], r[3]), expected="a result")
            res[inv] = None
        elif r[0] == "ype":
            col.case(("coll", kw, inv, shape_sig, "ype"))
            col.witness("%s-refused-with-YAMLPathException@%s" % (key, shape), what + " refused a collection the statement covers",
                        dict(inp, inverted=inv), observed=r[1], expected="a result")
            res[inv] = None
    got = {}
    for inv in (False, True):
        if res[inv] is None:
            got[inv] = None
            continue
        got[inv] = refs_of(col, key, what, dict(inp, inverted=inv), coll, res[inv][1][1], "inverted" if inv else "plain")
    valued = [r for r in all_refs if has[repr(r)] and val[repr(r)] is not None] if not undefined else []
    nulls = [r for r in all_refs if has[repr(r)] and val[repr(r)] is None] if not undefined else []
    absent = [r for r in all_refs if not has[repr(r)]] if not undefined else []
    content_sig = (len(valued), len(nulls), len(absent), len(set(val[repr(r)] for r in valued)) if valued else 0)

    if kw in ("max", "min") and not undefined:
        pick = max if kw == "max" else min
        if valued:
            ext = pick(val[repr(r)] for r in valued)
            G = [r for r in valued if val[repr(r)] == ext]
        else:
            G = []
        acceptable = [rset(G)]
        if nulls:   # from-code: a null attribute may be ignored, or count as the extreme
            acceptable += [rset(nulls), rset(G + nulls)]
        pl, il = got[False], got[True]
        col.case(("coll", kw, shape_sig, content_sig, None if pl is None else len(pl)),
                 sample={"doc": doc_text, "path": res[False][0] if res[False] else None, "result_refs": None if pl is None else rset(pl)})
        col.evaluations += 1
        if pl is not None and rset(pl) not in acceptable:
            rs, g = set(rset(pl)), set(rset(G))
            if nulls:
                k = "%s-wrong-extreme-when-a-null-attribute-is-present@%s" % (key, shape)
            elif rs < g:
                texts = set(str(val[repr(r)]) for r in G)
                if len(texts) > 1:      # equal values written differently (0.0 / -0.0)
                    k = "%s-tie-between-equal-values-spelled-differently-missed@%s" % (key, shape)
                else:
                    k = "%s-tie-member-missed@%s" % (key, shape)
            elif rs - g:
                k = "%s-non-extreme-member-returned@%s" % (key, shape)
            else:
                k = "%s-wrong-members@%s" % (key, shape)
            col.witness(k, what + " does not return exactly the members with the %s value" % ("greatest" if kw == "max" else "least"),
                        dict(inp, inverted=False), observed=rset(pl), expected=acceptable)
        if pl is not None and il is not None:
            others = rset([r for r in all_refs if repr(r) not in set(rset(pl))])
            if rset(il) != others:
                col.witness("%s-inverted-is-not-exactly-the-others@%s" % (key, shape),
                            what + ": the inverted result is not the complement of the plain result", dict(inp, inverted=True),
                            observed=rset(il), expected=others)
        elif il is not None:
            ok = [rset([r for r in all_refs if repr(r) not in set(a)]) for a in acceptable]
            if rset(il) not in ok:
                col.witness("%s-inverted-wrong-members@%s" % (key, shape), what + " inverted", dict(inp, inverted=True),
                            observed=rset(il), expected=ok)

    elif kw in ("unique", "distinct") and not undefined:
        def groups(with_nulls):
            g = {}
            for r in all_refs:
                if not has[repr(r)]:
                    continue
                v = val[repr(r)]
                if v is None and not with_nulls:
                    continue
                g.setdefault(("null",) if v is None else ("v", v), []).append(r)
            return g
        policies = [groups(True)] + ([groups(False)] if nulls else [])     # from-code: null as a value / ignored
        for inv in (False, True):
            g = got[inv]
            if g is None:
                continue
            if kw == "unique" and not inv:
                acceptable = [rset([m[0] for m in gr.values() if len(m) == 1]) for gr in policies]
                k = "%s-wrong-members@%s" % (key, shape)
            elif kw == "unique":
                acceptable = [rset([r for m in gr.values() if len(m) > 1 for r in m]) for gr in policies]
                k = "%s-inverted-wrong-members@%s" % (key, shape)
            else:
                acceptable = [rset([m[0] for m in gr.values()]) for gr in policies]
                k = "%s-not-the-first-of-each-group@%s" % (key, shape)
            col.case(("coll", kw, inv, shape_sig, content_sig, len(g)),
                     sample={"doc": doc_text, "path": res[inv][0], "result_refs": rset(g)})
            if rset(g) not in acceptable:
                col.witness(k, what + (" inverted" if inv else "") + " disagrees with the definition", dict(inp, inverted=inv),
                            observed=rset(g), expected=acceptable)


def check_has_child(col, doc_text, shape, coll_path, via, param, data=None):
    """has_child: `via` = "direct" ([has_child] on the AoH itself), "star" (`*[has_child]` over the members),
    or ["member", ref] (on one member hash)."""
    if data is None:
        data = gen.load(doc_text)
    coll = navigate(data, coll_path)
    prefix = "".join(coll_path)
    inp = {"check": "has_child", "doc": doc_text, "shape": shape, "coll_path": list(coll_path), "via": via, "param": param}
    members = members_of(coll, shape)
    key = "C13/has_child"
    if via == "direct":
        pfx, cands, holder = prefix, members, coll
    elif via == "star":
        pfx, cands, holder = (prefix + "." if prefix else "") + "*", members, coll
    else:
        ref = via[1]
        seg = "[%d]" % ref if shape == "aoh" else (("." if prefix else "") + str(ref))
        pfx, cands, holder = prefix + seg, [(ref, coll[ref])], coll
    what = "%s[has_child(%s)] on %s" % (pfx, "" if param is None else param, shape)
    for inv in (False, True):
        p = kw_path(pfx, "has_child", inv, param)
        r = query(data, p)
        if param is None:      # from-code: exactly one parameter is required
            col.case(("has_child-undefined", inv, r[0]))
            col.out_of_scope("undefined-by-statement:has_child-without-parameter->%s" % r[0])
            continue
        sig = ("has_child", inv, shape, str(via if isinstance(via, str) else "member"), len(cands), bool(coll_path))
        if r[0] == "raise":
            col.case(sig + ("raise", r[1], r[2]))
            col.witness("%s-raises-%s@%s" % (key, r[1], r[2]), what + " raised a non-library exception", dict(inp, inverted=inv),
                        observed="%s: %s" % (r[1], r[3]), expected="a result")
            continue
        if r[0] == "ype":
            col.case(sig + ("ype",))
            col.witness("%s-refused-with-YAMLPathException@%s-%s" % (key, shape, via if isinstance(via, str) else "member"),
                        what + " refused hashes", dict(inp, inverted=inv), observed=r[1], expected="a result")
            continue
        exp = [ref for ref, m in cands if (param in m) != inv]
        got = []
        bad = False
        for nc in r[1]:
            hit = [ref for ref, m in cands if m is nc.node]
            if len(hit) != 1:
                bad = True
                break
            # coordinates: held in the collection under ref (a single member queried by explicit path as well)
            if not (nc.parent is holder and nc.parentref == hit[0]):
                col.witness("%s-result-coordinates-wrong@%s-%s" % (key, shape, via if isinstance(via, str) else "member"),
                            what + ": the hash is returned with a wrong parent/parentref", dict(inp, inverted=inv),
                            observed={"parentref": repr(nc.parentref), "parent_is_collection": nc.parent is holder},
                            expected={"parentref": repr(hit[0])})
                bad = None
                break
            got.append(hit[0])
        col.case(sig + (len(got),), sample={"doc": doc_text, "path": p, "result_refs": rset(got)})
        if bad is None:
            continue
        if bad or rset(got) != rset(exp) or len(got) != len(exp):
            col.witness("%s-%swrong-hashes@%s-%s" % (key, "inverted-" if inv else "", shape, via if isinstance(via, str) else "member"),
                        what + (" inverted" if inv else "") + " does not return exactly the hashes %s the key" % ("lacking" if inv else "having"),
                        dict(inp, inverted=inv), observed=[repr(nc.node) for nc in r[1]] if bad else rset(got), expected=rset(exp))


def member_alphabet(kind):
    vs = VALUE_KINDS[kind]
    return [{ATTR: vs[0]}, {ATTR: vs[1]}, {ATTR: vs[2]}, {OTHER: 1}, {ATTR: None}]


def coll_docs(max_len, nested_max_len):
    """-> [(doc_text, shape, coll_path)]; placed at the root, and (up to nested_max_len members) under a key."""
    docs = []
    for kind, vs in VALUE_KINDS.items():
        for n in range(1, max_len + 1):
            for seq in itertools.product(vs, repeat=n):
                docs.append((list(seq), "seq"))
        alpha = member_alphabet(kind)
        for n in range(1, max_len + 1):
            for seq in itertools.product(alpha, repeat=n):
                docs.append(([dict(m) for m in seq], "aoh"))
                docs.append(({"k%d" % i: dict(m) for i, m in enumerate(seq)}, "hoh"))
    # equal values with different spellings (ties must still be found)
    docs.append(([0.0, -0.0], "seq"))
    docs.append(([-0.0, 0.0, 1.0], "seq"))
    docs.append(([{ATTR: 0.0}, {ATTR: -0.0}], "aoh"))
    out = []
    for t, shape in docs:
        out.append((gen.to_yaml(t), shape, []))
        if len(t) <= nested_max_len:
            out.append((gen.to_yaml({"k": t, "z": 1}), shape, ["k"]))
    # the same value written in different YAML styles (hexadecimal / octal / underscored integers, plain and quoted
    # text, 1.5 and 1.50): still one group of equal values
    for vals in (("16", "0x10", "3"), ("0x10", "16", "0o20", "1_6"), ("abc", '"abc"', "'abc'", "d"), ("1.5", "1.50", "2.5"),
                 ("3", "16", "0x10")):
        out.append(("[%s]" % ", ".join(vals), "seq", []))
        out.append(("[%s]" % ", ".join("{%s: %s}" % (ATTR, v) for v in vals), "aoh", []))
        out.append(("{%s}" % ", ".join("k%d: {%s: %s}" % (i, ATTR, v) for i, v in enumerate(vals)), "hoh", []))
    return out


def _coll_chunk(items, full=True):
    """`full` (thorough): every combination on every collection.  Otherwise the combinations whose outcome
    does not depend on the members (parameter misuse, has_child without / with an unknown parameter) and the
    per-member has_child queries beyond the first and last member are run on collections of <= 2 members only."""
    col = Collector()
    for doc_text, shape, coll_path in items:
        data = gen.load(doc_text)
        coll = navigate(data, coll_path)
        members = members_of(coll, shape)
        small = full or len(members) <= 2
        defined_param = None if shape == "seq" else ATTR
        for kw in ("max", "min", "unique", "distinct"):
            for param in ((None, ATTR) if small else (defined_param,)):
                check_coll(col, doc_text, shape, coll_path, kw, param, data)
        if shape in ("aoh", "hoh"):
            vias = (["direct", "star"] if shape == "aoh" else ["star"])
            refs = [r for r, _ in members]
            if not small:
                refs = [refs[0], refs[-1]]
            vias += [["member", r] for r in refs]
            for via in vias:
                for param in ((ATTR, OTHER, "zz", None) if small else (ATTR, OTHER)):
                    if param is None and via != vias[0]:
                        continue
                    check_has_child(col, doc_text, shape, coll_path, via, param, data)
    return col.result(internal=True)


# ---------------------------------------------------------------------------------------
# parent(n) / name()
# ---------------------------------------------------------------------------------------
def walk(node, trail=()):
    """Yield (trail, node); trail = tuple of refs from the root."""
    yield trail, node
    if isinstance(node, dict):
        for k, v in node.items():
            yield from walk(v, trail + (k,))
    elif isinstance(node, list):
        for i, v in enumerate(node):
            yield from walk(v, trail + (i,))


def trail_path(trail, chain=None):
    """chain[i] = the container holding trail[i] (given when a hash may have integer keys: those are key segments)."""
    s = ""
    for i, ref in enumerate(trail):
        if isinstance(ref, int) and not (chain is not None and isinstance(chain[i], dict)):
            s += "[%d]" % ref
        else:
            s += ("." if s else "") + str(ref)
    return s


def check_tree(col, doc_text, trail, kw, n, data=None):
    """kw "parent": n in (None, 0, 1, ...);  kw "name": n is None | "inverted" | "param"."""
    if data is None:
        data = gen.load(doc_text)
    trail = tuple(trail)
    chain = [data]                      # chain[i] = node at depth i along the trail
    for ref in trail:
        chain.append(chain[-1][ref])
    depth = len(trail)
    base = trail_path(trail, chain)
    inp = {"check": "tree", "doc": doc_text, "trail": list(trail), "kw": kw, "n": n}

    def coords_of(d):
        """(node, parent, parentref) of the ancestor at depth d."""
        return (chain[d], chain[d - 1] if d > 0 else None, trail[d - 1] if d > 0 else None)

    if kw == "parent":
        p = kw_path(base, "parent", False, None if n is None else str(n))
        r = query(data, p)
        steps = 1 if n is None else n
        sig = ("parent", depth, "absent" if n is None else min(steps, depth + 1) - depth, r[0])
        if r[0] == "raise":
            col.case(sig + (r[1], r[2]))
            col.witness("C13/parent-raises-%s@%s" % (r[1], r[2]), "[parent(n)] raised a non-library exception", inp,
                        observed="%s: %s" % (r[1], r[3]), expected="ancestor or YAMLPathException")
            return
        if steps == 0:                  # from-code: "parent(0) is the present node"; README documents 1-N steps
            col.case(sig)
            ok = r[0] == "ok" and len(r[1]) == 1 and r[1][0].node is chain[depth]
            col.out_of_scope("undefined-by-statement:parent(0)->%s" % ("present-node" if ok else r[0]))
            return
        col.case(sig, sample={"doc": doc_text, "path": p, "outcome": r[0]})
        if steps > depth:
            if r[0] != "ype":
                col.witness("C13/parent-climbs-above-the-root-without-refusing", "[parent(n)] with n > depth did not raise YAMLPathException",
                            inp, observed=[repr(nc.node) for nc in r[1]], expected="YAMLPathException")
            return
        if r[0] == "ype":
            col.witness("C13/parent-refuses-a-climb-within-the-document", "[parent(n)] with n <= depth raised", inp,
                        observed=r[1], expected=repr(chain[depth - steps]))
            return
        enode, eparent, eref = coords_of(depth - steps)
        if len(r[1]) != 1 or r[1][0].node is not enode:
            col.witness("C13/parent-returns-the-wrong-ancestor", "[parent(n)] is not the n-th ancestor", inp,
                        observed=[repr(nc.node) for nc in r[1]], expected=repr(enode))
            return
        nc = r[1][0]
        if nc.parent is not eparent or nc.parentref != eref or type(nc.parentref) is not type(eref):
            col.witness("C13/parent-ancestor-returned-with-wrong-coordinates",
                        "the n-th ancestor is returned with a parent/parentref that is not where it is held", inp,
                        observed={"parentref": repr(nc.parentref), "parent": repr(nc.parent)},
                        expected={"parentref": repr(eref), "parent": repr(eparent)})
        return

    # name()
    inv = n == "inverted"
    p = kw_path(base, "name", inv, "x" if n == "param" else None)
    r = query(data, p)
    sig = ("name", depth, n, r[0], type(trail[-1]).__name__ if trail else "root")
    if r[0] == "raise":
        col.case(sig + (r[1], r[2]))
        col.witness("C13/name-raises-%s@%s" % (r[1], r[2]), "[name()] raised a non-library exception", inp,
                    observed="%s: %s" % (r[1], r[3]), expected="the key or index")
        return
    if n is not None or depth == 0:     # from-code: inversion / a parameter / the root has no name
        col.case(sig)
        col.out_of_scope("undefined-by-statement:name-%s->%s" % ("of-root" if n is None else n, r[0]))
        return
    col.case(sig, sample={"doc": doc_text, "path": p, "outcome": r[0]})
    node, parent, ref = coords_of(depth)
    if r[0] == "ype":
        col.witness("C13/name-refused-with-YAMLPathException", "[name()] raised", inp, observed=r[1], expected=repr(ref))
        return
    if len(r[1]) != 1 or r[1][0].node != ref or type(r[1][0].node) is not type(ref):
        col.witness("C13/name-is-not-the-key-or-index-of-the-node", "[name()] is not the key/index under which the node is held", inp,
                    observed=[repr(nc.node) for nc in r[1]], expected=repr(ref))
        return
    nc = r[1][0]
    if nc.parent is not parent or nc.parentref != ref:
        col.witness("C13/name-returned-with-wrong-coordinates", "[name()] result does not point at the holder of the node", inp,
                    observed={"parentref": repr(nc.parentref), "parent": repr(nc.parent)},
                    expected={"parentref": repr(ref), "parent": repr(parent)})


def _tree_chunk(items, _unused=None):
    col = Collector()
    for doc_text in items:
        data = gen.load(doc_text)
        for trail, _node in list(walk(data)):
            depth = len(trail)
            for n in [None] + list(range(0, depth + 3)):
                # a fresh load is not needed: queries do not modify the data
                check_tree(col, doc_text, trail, "parent", n, data)
            for n in (None, "inverted", "param"):
                check_tree(col, doc_text, trail, "name", n, data)
    return col.result(internal=True)


def tree_docs(max_nodes, sample_size=0, rng=None):
    """Every container-rooted tree with <= max_nodes nodes, plus a seeded sample of those with max_nodes+1."""
    kw = dict(keys=("a", "b"), scalars=(1, "x"), sets=False)
    ts = [t for t in gen.trees(max_nodes, 4, **kw) if isinstance(t, (dict, list))]
    if sample_size:
        bigger = [t for t in gen.trees(max_nodes + 1, 4, **kw) if gen.size(t) > max_nodes]
        ts += rng.sample(bigger, min(sample_size, len(bigger)))
    # hashes with INTEGER keys on the way (a key segment written as text matches the integer key; the climb back and
    # name() must report the integer)
    hand = ["{1: {a: {b: x}}, a: {2: {b: 1}}}", "{a: {1: [x, {2: 1}]}}", "[{1: {a: 1}}, {2: x}]"]
    return [gen.to_yaml(t) for t in ts] + hand


# ---------------------------------------------------------------------------------------
def run(tier="quick", seed=0, jobs=None):
    thorough = tier == "thorough"
    col = Collector()
    max_len = 5 if thorough else 4
    max_nodes = 6 if thorough else 4
    tree_sample = 0 if thorough else 800
    rng = random.Random("c13-%s" % seed)
    nested_max_len = 5 if thorough else 3
    cdocs = coll_docs(max_len, nested_max_len)
    rng.shuffle(cdocs)
    for r in pmap_chunks(_coll_chunk, cdocs, jobs, chunk=max(10, len(cdocs) // 320), extra=(thorough,)):
        col.merge(r)
    n_coll = col.evaluations
    tdocs = tree_docs(max_nodes, tree_sample, rng)
    rng.shuffle(tdocs)
    for r in pmap_chunks(_tree_chunk, tdocs, jobs, chunk=max(10, len(tdocs) // 320)):
        col.merge(r)
    bounds = {
        "collections": {"max_length": max_len, "value_kinds": {k: list(v) for k, v in VALUE_KINDS.items()},
                        "member_alphabet": "{a: v} x 3 values, {b: 1} (absent), {a: null}", "shapes": ["seq", "aoh", "hoh"],
                        "placements": ["root", "under key k (length <= %d)" % nested_max_len], "documents": len(cdocs),
                        "keywords": ["max", "min", "unique", "distinct", "has_child"], "inversion": [False, True],
                        "parameter": ["absent", "a"], "has_child_parameters": ["a", "b", "zz", "absent"],
                        "member_independent_combinations": "all collections" if thorough else "collections of <= 2 members",
                        "complete": True},
        "parent_name": {"documents": "every rtc.gen.trees(N<=%d, depth<=4, keys{a,b}, scalars{1,x}) with a container root + %d sampled with N=%d"
                                     % (max_nodes, tree_sample, max_nodes + 1),
                        "n_documents": len(tdocs), "nodes": "every node, explicit path",
                        "parent_n": "absent, 0..depth+2", "name": ["plain", "inverted", "with a parameter"], "complete": True},
    }
    return col.result(
        rule=("definitional oracle == query result for [max|min|unique|distinct(a?)], [!...], has_child over every seq/AoH/hash-of-hashes "
              "of length <= %d per value kind (root and nested); [parent(n)] = n-th ancestor or YAMLPathException above the root and "
              "[name()] = holding key/index for every node of every tree with <= %d nodes (+%d sampled one node larger)"
              % (max_len, max_nodes, tree_sample)),
        exhaustive=True, bounds=bounds,
        evaluations_by_check={"collections": n_coll, "parent_name": col.evaluations - n_coll}, tier=tier, seed=seed)


def replay(inp):
    col = Collector()
    c = inp.get("check")
    if c == "coll":
        check_coll(col, inp["doc"], inp["shape"], inp["coll_path"], inp["kw"], inp["param"])
    elif c == "has_child":
        check_has_child(col, inp["doc"], inp["shape"], inp["coll_path"], inp["via"], inp["param"])
    elif c == "tree":
        check_tree(col, inp["doc"], inp["trail"], inp["kw"], inp["n"])
    else:
        raise ValueError("unknown replay input %r" % (inp,))
    ws = list(col.witnesses.values())
    if "inverted" in inp:
        pref = [w for w in ws if any(i.get("inverted") == inp["inverted"] for i in w["inputs"])]
        ws = pref or ws
    return ws[0] if ws else None


if __name__ == "__main__":
    _tier = sys.argv[1] if len(sys.argv) > 1 else "quick"
    _seed = int(sys.argv[2]) if len(sys.argv) > 2 else 0
    _jobs = int(sys.argv[3]) if len(sys.argv) > 3 else None
    print(json.dumps(run(_tier, _seed, _jobs), indent=1, default=repr))
