"""C18 — multi-document merges combine documents as the selected mode defines.

Real (three channels)
  driver : yaml_merge.merge_condense_all / merge_across / merge_matrix(log, lhs_mergers, rhs_mergers)
           on lists of Merger objects built as get_doc_mergers builds them (one shared MergerConfig)
  docs   : yaml_merge.merge_docs(log, editor, config, lhs_mergers, rhs_file)   (right stream from a temp file,
           mode taken from args.multi_doc_mode)
  main   : yaml_merge.main() in-process (sys.argv patched, -S, -D yaml, stdout captured and parsed as a stream)
Oracle: spec.merge.spec_multidoc — condense_all: fold every document of both streams, in order, into one;
        merge_across: i-th right into i-th left, surplus right documents appended; matrix_merge: every right
        document into every left document; each step is spec_merge (C05 oracle).  The number of output
        documents is spec.merge.multidoc_output_count(mode, m, n).

Documents carry position tags (`L0`, `R2`, ...) inside an Array and as Hash keys, so the merged result spells
out which documents were merged into which, in which order (the `trace` of the design) under every policy.

The statement defines the modes on success paths only: when any admitted reading of any pairwise step is a
merge error the case is counted out_of_scope("merge-error-path/<mode>") — unless something other than the
documented return state happens (an exception escaping the driver is a witness).

When the driver's result differs from the oracle the harness folds the REAL pairwise merge_with itself in the
order the statement defines: if the driver agrees with that fold the defect is the pairwise merge's (C05), the
key is C18/inherited-from-pairwise-merge/<C05 key tail>; otherwise the driver combines documents wrongly:
C18/wrong-fold/<mode>/<m?n>/....
"""
import contextlib
import io
import itertools
import json
import os
import random
import shutil
import sys
import time
from types import SimpleNamespace

from rtc import c05, gen
from rtc.c05 import OPTS, DEFAULT_POLICY, plain, loaded
from rtc.gen import SetT
from rtc.harness import Collector, pmap_chunks, stable_hash
from spec import merge as S

PROP = "C18"
TMP_ROOT = "/tmp/rtc_c18/%d" % os.getpid()      # per run (workers are forked and inherit it); removed by run()/replay()
MODES = S.MULTIDOC_MODES
POLICIES = [
    {}, {"arrays": "unique"}, {"arrays": "left"}, {"arrays": "right"}, {"hashes": "left"}, {"hashes": "right"},
    {"sets": "left", "aoh": "unique"}, {"hashes": "deep", "arrays": "all", "aoh": "deep", "sets": "right"},
]


# --------------------------------------------------------------------------- documents

def doc(tag, variant):
    """variant: 'map' | 'empty' | 'list' | 'rich'"""
    if variant == "empty":
        return None
    if variant == "list":
        # `dup` is shared by every list document: under arrays=unique a merge then REBUILDS the root list, so a
        # driver (or Merger) that keeps working on the root object it saw first shows up in the next step (dup comes first: the rebuild then precedes the append of TAG)
        return ["dup", tag]
    if variant == "map":
        d = {"a": [tag], tag: 1, "last": tag}
        if tag.startswith("R"):
            # a list only the right-hand documents have: a left document ADOPTS it, and two left documents that adopt
            # it from the same right-hand document must not end up sharing the node (matrix mode)
            d["only_right"] = [tag]
        return d
    return {"a": [tag, "dup"], "h": {tag: 1, "k": tag}, "s": SetT((tag, "m")), "r": [{"a": tag}], "last": tag}


def stream(side, variants):
    return [doc("%s%d" % (side, i), v) for i, v in enumerate(variants)]


def stream_text(docs, empty_as_blank=True):
    """A YAML stream; empty documents are written as nothing between the markers."""
    out = ""
    for d in docs:
        out += "---\n" + ("" if (d is None and empty_as_blank) else gen.to_yaml(d) + "\n")
    return out


def case_docs(case):
    return stream("L", case["lhs"]), stream("R", case["rhs"])


# --------------------------------------------------------------------------- real side

def _args(case, **more):
    kw = {o: v for o, v in case["args"].items() if v}
    kw["multi_doc_mode"] = case["mode"]
    kw.update(more)
    return SimpleNamespace(**kw)


def _mergers(log, docs, config):
    from yamlpath.merger import Merger
    return [Merger(log, loaded(gen.to_yaml(d)) if d is not None else None, config) for d in docs]


def _crash(ex):
    at, line = c05._innermost_frame(ex)
    return ("crash", {"type": type(ex).__name__, "at": at, "line": line, "detail": c05._exc_detail(ex), "msg": str(ex)[:200]})


def run_driver(case):
    """-> ("ok", [docs]) | ("error", "state N", [docs]) | ("crash", info)"""
    from yamlpath.commands import yaml_merge
    from yamlpath.merger import MergerConfig
    log = gen.QuietLog()
    ld, rd = case_docs(case)
    try:
        config = MergerConfig(log, _args(case))
        lhs, rhs = _mergers(log, ld, config), _mergers(log, rd, config)
        fn = {"condense_all": yaml_merge.merge_condense_all, "merge_across": yaml_merge.merge_across,
              "matrix_merge": yaml_merge.merge_matrix}[case["mode"]]
        state = fn(log, lhs, rhs)
        out = [plain(m.data) for m in lhs]
    except (KeyboardInterrupt, MemoryError):
        raise
    except BaseException as ex:
        return _crash(ex)
    return ("ok", out) if state == 0 else ("error", "state %s" % state, out)


def _tmpdir():
    d = os.path.join(TMP_ROOT, str(os.getpid()))
    os.makedirs(d, exist_ok=True)
    return d


def run_merge_docs(case):
    from yamlpath.commands import yaml_merge
    from yamlpath.merger import MergerConfig
    from yamlpath.common import Parsers
    log = gen.QuietLog()
    ld, rd = case_docs(case)
    rfile = os.path.join(_tmpdir(), "r.yaml")
    with open(rfile, "w") as fh:
        fh.write(stream_text(rd))
    try:
        config = MergerConfig(log, _args(case))
        lhs = _mergers(log, ld, config)
        state = yaml_merge.merge_docs(log, Parsers.get_yaml_editor(), config, lhs, rfile)
        out = [plain(m.data) for m in lhs]
    except (KeyboardInterrupt, MemoryError):
        raise
    except BaseException as ex:
        return _crash(ex)
    return ("ok", out) if state == 0 else ("error", "state %s" % state, out)


class _NoTTY(io.StringIO):
    def isatty(self):
        return True


class _Piped(io.StringIO):
    def isatty(self):
        return False


def run_main(case, stdin_rhs=False, stdin_only=False):
    """yaml-merge in-process; with stdin_rhs the right-hand stream arrives on STDIN (`-`) instead of in a file.
    -> ("ok", [docs]) | ("error", "exit N", stderr) | ("crash", info)"""
    from yamlpath.commands import yaml_merge
    from yamlpath.common import parsers as parsers_mod
    ld, rd = case_docs(case)
    d = _tmpdir()
    files = []
    for name, docs in (("l.yaml", ld), ("r.yaml", rd)):
        if name == "r.yaml" and (not docs or stdin_rhs):
            continue
        p = os.path.join(d, name)
        with open(p, "w") as fh:
            fh.write(stream_text(docs))
        files.append(p)
    if stdin_rhs:
        files.append("-")
    if stdin_only:
        # no YAML_FILE at all: the (single) stream is piped in and `-` is inferred
        files, stdin_rhs, rd = [], True, ld
    argv = ["yaml-merge", "-D", "yaml", "-M", case["mode"]] + ([] if stdin_rhs else ["-S"])
    for o, flag in zip(OPTS, ("-H", "-A", "-O", "-E")):
        if case["args"].get(o):
            argv += [flag, case["args"][o]]
    argv += files
    out, err = io.StringIO(), io.StringIO()
    old = sys.argv, sys.stdin, parsers_mod.stdin
    code = None
    try:
        sys.argv, sys.stdin = argv, (_Piped(stream_text(rd)) if stdin_rhs else _NoTTY(""))
        parsers_mod.stdin = sys.stdin              # (parsers.py binds `from sys import stdin` at import time)
        with contextlib.redirect_stdout(out), contextlib.redirect_stderr(err):
            try:
                yaml_merge.main()
            except SystemExit as ex:
                code = ex.code
    except (KeyboardInterrupt, MemoryError):
        raise
    except BaseException as ex:
        return _crash(ex)
    finally:
        sys.argv, sys.stdin, parsers_mod.stdin = old
    if code not in (0, None):
        return ("error", "exit %s" % code, err.getvalue()[:300])
    try:
        docs = [plain(x) for x in gen.editor().load_all(out.getvalue())]
    except Exception as ex:      # the tool printed something that is not a YAML stream
        return ("crash", {"type": "UnparsableOutput", "at": "yaml_merge.py:write_output_document", "line": 0,
                          "detail": type(ex).__name__, "msg": out.getvalue()[:200]})
    return ("ok", docs)


def fold_real(case):
    """The statement's fold with the REAL pairwise merge_with as the step (fresh Mergers, no driver)."""
    from yamlpath.merger import Merger, MergerConfig
    from yamlpath.merger.exceptions import MergeException
    from yamlpath.exceptions import YAMLPathException
    log = gen.QuietLog()
    ld, rd = case_docs(case)
    config = MergerConfig(log, _args(case))

    def fresh(d):
        return loaded(gen.to_yaml(d)) if d is not None else None

    def step(acc, r):
        m = Merger(log, acc, config)
        m.merge_with(fresh(r))
        return m.data

    try:
        mode = case["mode"]
        if mode == "condense_all":
            acc = fresh(ld[0])
            for r in ld[1:] + rd:
                acc = step(acc, r)
            out = [acc]
        elif mode == "merge_across":
            out = []
            for i in range(max(len(ld), len(rd))):
                if i < len(ld) and i < len(rd):
                    out.append(step(fresh(ld[i]), rd[i]))
                else:
                    out.append(fresh(ld[i] if i < len(ld) else rd[i]))
        else:
            out = []
            for l in ld:
                acc = fresh(l)
                for r in rd:
                    acc = step(acc, r)
                out.append(acc)
        return ("ok", [plain(x) for x in out])
    except (MergeException, YAMLPathException) as ex:
        return ("error", str(ex))
    except (KeyboardInterrupt, MemoryError):
        raise
    except BaseException as ex:
        return _crash(ex)


# --------------------------------------------------------------------------- judging

def judge(case, channel="driver", real=None):
    ld, rd = case_docs(case)
    mode = case["mode"]
    if real is None:
        real = {"driver": run_driver, "docs": run_merge_docs, "main": run_main, "main-stdin": lambda c: run_main(c, stdin_rhs=True),
                "main-stdin-only": lambda c: run_main(c, stdin_only=True)}[channel](case)
    cfg = S.SpecConfig.from_sources(cli=case["args"])

    def merge(l, r, c, trace=None):
        return S.spec_multidoc(l, r, mode, c, trace)

    res = c05.judge(case, real=real[:2], lt=ld, rt=rd, merge=merge, cfg=cfg)
    res["real_full"] = real
    res["channel"] = channel
    # error paths are outside the statement: any admitted reading with an impossible step
    outcomes = S.spec_outcomes(ld, rd, cfg, merge) if res["status"] not in ("pass",) or res["expected"][0] == "error" else None
    if real[0] != "crash" and (res["expected"][0] == "error" or (outcomes and any(o[1][0] == "error" for o in outcomes))):
        res["status"] = "error-path"
        return res
    if real[0] == "ok" and len(real[1]) != S.multidoc_output_count(mode, len(ld), len(rd)):
        res["status"] = "output-count"
    return res


def _relation(case):
    m, n = len(case["lhs"]), len(case["rhs"])
    return "m<n" if m < n else ("m=n" if m == n else "m>n")


def classify(case, res):
    st, real, mode = res["status"], res["real"], case["mode"]
    ch = "" if res["channel"] == "driver" else "/via-" + res["channel"]
    if st == "crash":
        return "%s/crash/%s(%s)@%s%s" % (PROP, real[1]["type"], real[1]["detail"], real[1]["at"], ch), \
               "%s escapes the %s driver (%s line %s): %s" % (real[1]["type"], mode, real[1]["at"], real[1]["line"], real[1]["msg"])
    if st == "output-count":
        return "%s/output-count/%s/%s%s" % (PROP, mode, _relation(case), ch), \
               "%d output documents, the mode and the stream lengths define %d" % (
                   len(real[1]), S.multidoc_output_count(mode, len(case["lhs"]), len(case["rhs"])))
    fr = fold_real(case)
    got = res["real_full"][1] if real[0] == "ok" else res["real_full"][2] if isinstance(res["real_full"][2], list) else None
    if real[0] == "ok" and fr[0] == "ok" and S.veq(fr[1], real[1]):
        # the driver folds as the statement says; a pairwise step differs from the C05 oracle
        tail = _first_bad_step(case)
        return "%s/inherited-from-pairwise-merge/%s" % (PROP, tail), \
               "the driver agrees with the fold of the real pairwise merges; a pairwise merge_with differs from its oracle (C05)"
    if real[0] == "error" and fr[0] != "ok":
        tail = _first_bad_step(case)
        return "%s/inherited-from-pairwise-merge/%s" % (PROP, tail), \
               "a pairwise merge_with fails although its oracle defines a result (C05); the driver reports state != 0"
    empties = ["%s%d" % (side, i) for side, vs in (("L", case["lhs"]), ("R", case["rhs"])) for i, v in enumerate(vs) if v == "empty"]
    where = "with-empty-left-document" if any(e.startswith("L") for e in empties) else \
        "with-empty-right-document" if empties else "no-empty-document"
    pol = ""
    if any(case["args"].get(o) not in (None, DEFAULT_POLICY[o]) for o in OPTS):
        if judge(dict(case, args={}), res["channel"])["status"] != st:      # only then do the policies matter
            pol = "/" + ",".join("%s=%s" % (o, case["args"][o]) for o in OPTS if case["args"].get(o) not in (None, DEFAULT_POLICY[o]))
    rel = "/" + _relation(case) if mode == "merge_across" else ""
    if real[0] == "error":
        return "%s/error-state-where-result-defined/%s/%s%s" % (PROP, mode, real[1].replace(" ", "="), ch), \
               "the driver reports an error although every pairwise step has a defined result"
    return "%s/wrong-fold/%s%s/%s%s%s" % (PROP, mode, rel, where, pol, ch), \
           "the output documents are not the fold the mode defines (the real pairwise merges folded in the stated order give the oracle's result or another one)"


def _first_bad_step(case):
    """C05 classification of the first pairwise step (in the statement's order) that disagrees with its oracle."""
    ld, rd = case_docs(case)
    mode = case["mode"]
    cfg = S.SpecConfig.from_sources(cli=case["args"])
    if mode == "condense_all":
        seqs = [[ld[0]] + ld[1:] + rd]
    elif mode == "merge_across":
        seqs = [[ld[i], rd[i]] for i in range(min(len(ld), len(rd)))]
    else:
        seqs = [[l] + rd for l in ld]
    for seq in seqs:
        acc = seq[0]
        for r in seq[1:]:
            sub = {"lhs": gen.to_yaml(acc), "rhs": gen.to_yaml(r), "args": case["args"]}
            r5 = c05.judge(sub)
            if r5["status"] not in ("pass", "from-code"):
                return c05.classify(sub, r5)[0].split("/", 1)[1]
            try:
                acc = S.spec_merge(acc, r, cfg)
            except S.SpecMergeError:
                break
    return "undetermined"


# --------------------------------------------------------------------------- enumeration

def variant_streams(variants, max_len=4, min_len=1):
    out = []
    for n in range(min_len, max_len + 1):
        out.extend(itertools.product(variants, repeat=n))
    return out


def mk_case(lv, rv, mode, pol):
    return {"lhs": list(lv), "rhs": list(rv), "mode": mode, "args": dict(pol)}


def _sig(case, res):
    return stable_hash([case["mode"], len(case["lhs"]), len(case["rhs"]), sorted(set(case["lhs"])), sorted(set(case["rhs"])),
                        case["lhs"][0], sorted(k for k, v in case["args"].items() if v), res["status"], res["real"][0], res["channel"]])


def eval_case(col, case, channel, suppress=False):
    res = judge(case, channel)
    st = res["status"]
    sample = None
    if st == "pass" and len(col.samples) < col.max_samples and col.evaluations % 41 == 0 and len(case["lhs"]) + len(case["rhs"]) > 3:
        sample = {"input": dict(case, channel=channel), "result": c05._jsonable(res["real_full"])}
    col.case(_sig(case, res), sample)
    if st == "pass":
        return res
    if st == "error-path":
        col.out_of_scope("merge-error-path/%s" % case["mode"])
        return res
    if st == "from-code":
        col.out_of_scope("from-code-clause-disagrees/" + "+".join(res["from_code"]))
        return res
    if suppress:
        col.out_of_scope("same-failure-already-reported-for-the-driver-channel")
        return res
    key, what = classify(case, res)
    col.witness(key, what, dict(case, channel=channel), observed=c05._jsonable(res["real_full"]),
                expected=c05._jsonable(res["expected"]))
    return res


def work(chunk, seed, policies, channels_every):
    """chunk: list of (lhs variants, rhs variants)."""
    col = Collector()
    t0 = time.process_time()
    n = 0
    for lv, rv in chunk:
        for mode in MODES:
            for pol in policies:
                case = mk_case(lv, rv, mode, pol)
                n += 1
                r = None
                if rv:
                    r = eval_case(col, case, "driver")
                if channels_every and (n % channels_every == 0 or not rv):
                    for ch in ("docs", "main", "main-stdin") if rv else ("main", "main-stdin-only"):
                        r2 = eval_case(col, case, ch, suppress=r is not None and r["status"] not in ("pass", "error-path"))
                        # the channels must agree with each other on success paths
                        if r is not None and r["real"][0] == "ok" and r2["real"][0] == "ok" and not S.veq(r["real"][1], r2["real"][1]) \
                                and r["status"] == "pass":
                            col.witness("%s/channel-disagrees-with-driver/%s/via-%s" % (PROP, mode, ch),
                                        "the same streams and options give different documents through this entry point",
                                        dict(case, channel=ch), observed=c05._jsonable(r2["real"]), expected=c05._jsonable(r["real"]))
    return col.result(internal=True, cpu_s=time.process_time() - t0)


def _cleanup():
    shutil.rmtree(TMP_ROOT, ignore_errors=True)
    try:
        os.rmdir(os.path.dirname(TMP_ROOT))
    except OSError:
        pass


# files that hold NO document at all (empty, comments only): a stream of length 0
NO_DOC_TEXTS = {"empty-file": "", "comment-only-file": "# nothing here\n"}


def run_main_texts(texts, mode):
    """yaml-merge in-process on literal file contents.  -> ("ok", stdout) | ("error", "exit N", stderr) | ("crash", info)"""
    from yamlpath.commands import yaml_merge
    from yamlpath.common import parsers as parsers_mod
    d = _tmpdir()
    files = []
    for i, t in enumerate(texts):
        p = os.path.join(d, "n%d.yaml" % i)
        with open(p, "w") as fh:
            fh.write(t)
        files.append(p)
    out, err = io.StringIO(), io.StringIO()
    old = sys.argv, sys.stdin, parsers_mod.stdin
    code = None
    try:
        sys.argv, sys.stdin = ["yaml-merge", "-S", "-D", "yaml", "-M", mode] + files, _NoTTY("")
        parsers_mod.stdin = sys.stdin
        with contextlib.redirect_stdout(out), contextlib.redirect_stderr(err):
            try:
                yaml_merge.main()
            except SystemExit as ex:
                code = ex.code
    except (KeyboardInterrupt, MemoryError):
        raise
    except BaseException as ex:
        return _crash(ex)
    finally:
        sys.argv, sys.stdin, parsers_mod.stdin = old
    if code not in (0, None):
        return ("error", "exit %s" % code, err.getvalue()[:300])
    return ("ok", out.getvalue())


def check_no_document_files(col):
    """Inputs that hold no document: whatever yaml-merge makes of them, it is not a traceback; next to a real document they
    change nothing."""
    real = "a: 1\n"
    for name, text in NO_DOC_TEXTS.items():
        for mode in MODES:
            for shape, texts in (("alone", [text]), ("twice", [text, text]), ("before-a-document", [text, real]),
                                 ("after-a-document", [real, text])):
                inp = {"check": "no-document-file", "kind": name, "shape": shape, "mode": mode, "texts": texts}
                r = run_main_texts(texts, mode)
                col.case(("no-doc", name, shape, mode, r[0]))
                if r[0] == "crash":
                    col.witness("%s/crash/%s(%s)@%s/via-main-no-document-file" % (PROP, r[1]["type"], r[1]["detail"], r[1]["at"]),
                                "%s escapes yaml-merge when its input files hold no document (%s line %s)" % (r[1]["type"], r[1]["at"], r[1]["line"]),
                                inp, observed=r[1], expected="a result or a reported error, not a traceback")
                elif shape.endswith("a-document"):
                    want = run_main_texts([real], mode)
                    if r != want:
                        col.witness("%s/no-document-file-changes-the-result/%s" % (PROP, shape),
                                    "a file without any document next to a real one changes what yaml-merge prints", inp,
                                    observed=list(r), expected=list(want))


# anchors across the steps of one fold: every pairwise step is the C05/C10 merge -- also the second and third step into the
# same left-hand document, when an earlier step brought the anchor in
ANCHOR_STREAMS = [
    ("a: 1\n", ["b: &x one\nc: *x\n", "d: &x two\ne: *x\n"]),
    ("a: &x one\nb: *x\n", ["c: 1\n", "d: &x two\ne: *x\n"]),
    ("a: 1\n", ["b: &x one\nc: *x\n", "d: &x one\ne: *x\n"]),
    ("a: 1\n", ["b: &x one\nc: *x\n", "k: 2\n", "d: &x two\ne: *x\n"]),
]


def _fold_fresh(texts, anchors):
    """The fold with a FRESH Merger per step on a freshly re-loaded accumulator (no state survives a step)."""
    from yamlpath.merger import Merger, MergerConfig
    from yamlpath.merger.exceptions import MergeException
    from yamlpath.exceptions import YAMLPathException
    log = gen.QuietLog()
    acc = gen.load(texts[0])
    try:
        for t in texts[1:]:
            m = Merger(log, acc, MergerConfig(log, SimpleNamespace(anchors=anchors)))
            m.merge_with(gen.load(t))
            buf = io.StringIO()
            m.prepare_for_dump(gen.editor(), "")
            gen.editor().dump(m.data, buf)
            acc = gen.load(buf.getvalue())
    except (MergeException, YAMLPathException) as ex:
        return ("error", type(ex).__name__)
    return ("ok", plain(acc))


def check_anchor_folds(col):
    from yamlpath.commands import yaml_merge
    for left, rights in ANCHOR_STREAMS:
        for anchors in ("stop", "left", "right", "rename"):
            for mode in ("condense_all", "matrix_merge"):
                inp = {"check": "anchor-fold", "lhs": left, "rhs_stream": rights, "anchors": anchors, "mode": mode}
                want = _fold_fresh([left] + rights, anchors)
                d = _tmpdir()
                lf, rf = os.path.join(d, "al.yaml"), os.path.join(d, "ar.yaml")
                open(lf, "w").write(left)
                open(rf, "w").write("".join("---\n" + t for t in rights))
                from rtc import c16
                r = c16.run_cli("merge", ["-S", "-D", "yaml", "-M", mode, "--anchors=" + anchors, lf, rf])
                col.case(("anchor-fold", len(rights), anchors, mode, want[0], r["code"]))
                if r["code"] == "EXC":
                    col.witness("%s/anchor-fold/crash/%s" % (PROP, r["exc"]), "traceback in a fold over documents with anchors", inp,
                                observed=r["exc"], expected=list(want))
                elif want[0] == "error":
                    if r["code"] == 0:
                        col.witness("%s/anchor-fold/conflict-not-refused-in-a-later-step/%s" % (PROP, anchors),
                                    "a fresh step-by-step fold refuses (anchor conflict), the driver's fold goes through", inp,
                                    observed={"exit": 0, "out": r["out"][:200]}, expected=list(want))
                else:
                    try:
                        got = [plain(x) for x in gen.editor().load_all(r["out"])] if r["code"] == 0 else None
                    except Exception as ex:
                        got = "unloadable output: %s" % type(ex).__name__
                    if got != [want[1]]:
                        col.witness("%s/anchor-fold/result-differs-from-step-by-step-fold/%s" % (PROP, anchors),
                                    "folding several documents into one left-hand document gives another result than merging them one "
                                    "by one with fresh state", inp, observed={"exit": r["code"], "docs": c05._jsonable(got), "err": r["err"][-200:]},
                                    expected=c05._jsonable([want[1]]))


def run(tier="quick", seed=0, jobs=None):
    rng = random.Random(seed)
    two = variant_streams(("map", "empty"))
    three = variant_streams(("map", "empty", "list"))
    rich = variant_streams(("rich", "empty"), max_len=3)
    stages = []
    pairs2 = [(l, r) for l in two for r in two + [()]]
    pairs3 = [(l, r) for l in three for r in three]
    pairsr = [(l, r) for l in rich for r in rich]
    if tier == "smoke":
        stages.append(("{map,empty}^1..4 x {map,empty}^0..4 x 3 modes x 2 policies; docs/main every 9th", pairs2, (POLICIES[:2], 9)))
        exhaustive = False
    elif tier == "quick":
        stages.append(("{map,empty}^1..4 x {map,empty}^0..4 x 3 modes x 8 policies; docs/main channel every 9th",
                       pairs2, (POLICIES, 9)))
        stages.append(("{rich,empty}^1..3 squared x 3 modes x 8 policies; docs/main every 15th", pairsr, (POLICIES, 15)))
        stages.append(("{map,empty,list}^1..4 squared, 2500 sampled x 3 modes x 2 policies", rng.sample(pairs3, 2500), (POLICIES[:2], 0)))
        exhaustive = False
    else:
        stages.append(("{map,empty}^1..4 x {map,empty}^0..4 x 3 modes x 8 policies; docs/main channel every 3rd",
                       pairs2, (POLICIES, 3)))
        stages.append(("{rich,empty}^1..3 squared x 3 modes x 8 policies; docs/main every 5th", pairsr, (POLICIES, 5)))
        stages.append(("{map,empty,list}^1..4 squared x 3 modes x 3 policies; docs/main every 25th", pairs3, (POLICIES[:3], 25)))
        exhaustive = True
    col = Collector()
    info = []
    try:
        for name, items, extra in stages:
            before, cpu = col.evaluations, 0.0
            for r in pmap_chunks(work, items, jobs=jobs, chunk=max(5, len(items) // 160 or 1), extra=(seed,) + extra):
                col.merge(r)
                cpu += r["cpu_s"]
            info.append({"stage": name, "stream_pairs": len(items), "cases": col.evaluations - before, "cpu_s": round(cpu, 1)})
        check_no_document_files(col)
        check_anchor_folds(col)
    finally:
        _cleanup()
    bounds = {
        "streams": "lengths 1..4 on both sides (right side also 0: a single multi-document file); every position is an empty document "
                   "or a position-tagged document: map = {a: [TAG], TAG: 1, last: TAG} (+ only_right: [TAG] in right-hand documents); list = [dup, TAG]; "
                   "rich = {a: [TAG, dup], h: {TAG: 1, k: TAG}, s: !!set {TAG, m}, r: [{a: TAG}], last: TAG} (lengths 1..3)",
        "modes": list(MODES), "policies": POLICIES,
        "channels": "driver functions on Merger lists (all cases with a right stream); merge_docs with the right stream in a file and "
                    "yaml_merge.main() in-process -- right stream in a file, and piped through STDIN (`-`) -- on a deterministic subset (and all single-file cases, "
                    "each also with the one stream piped in and no YAML_FILE argument); files that hold no document (empty, comments only) alone, twice, "
                    "before and after a real document, per mode",
        "stages": info, "tier": tier, "seed": seed,
    }
    rule = ("on success paths the list [plain(m.data) for m in lhs_mergers] after the driver (and the stream yaml-merge prints) equals "
            "spec_multidoc(lhs stream, rhs stream, mode) = the statement's fold of spec_merge; its length is 1 / max(m,n) / m; nothing "
            "but the documented return state leaves the drivers; cases with an impossible pairwise step are out of scope")
    cpu = round(sum(s["cpu_s"] for s in info), 1)
    return col.result(rule=rule, exhaustive=exhaustive, bounds=bounds, cpu_s=cpu,
                      note="cpu_s = summed worker CPU time; about cpu_s/16 wall seconds on 16 idle cores")


def replay(inp):
    try:
        if inp.get("check") == "anchor-fold":
            col = Collector()
            check_anchor_folds(col)
            ws = [w for w in col.witnesses.values() if w["inputs"] and w["inputs"][0].get("anchors") == inp.get("anchors")]
            return ws[0] if ws else None
        if inp.get("check") == "no-document-file":
            r = run_main_texts(inp["texts"], inp["mode"])
            if r[0] == "crash":
                return {"key": "%s/crash/%s(%s)@%s/via-main-no-document-file" % (PROP, r[1]["type"], r[1]["detail"], r[1]["at"]),
                        "what": "traceback", "inputs": [inp], "observed": r[1], "expected": "no traceback", "count": 1}
            return None
        ch = inp.get("channel", "driver")
        res = judge(inp, ch)
        if res["status"] in ("pass", "error-path", "from-code"):
            if ch != "driver" and res["status"] == "pass":
                d = judge(inp, "driver")
                if d["real"][0] == "ok" and res["real"][0] == "ok" and not S.veq(d["real"][1], res["real"][1]):
                    return {"key": "%s/channel-disagrees-with-driver/%s/via-%s" % (PROP, inp["mode"], ch), "what": "channels disagree",
                            "inputs": [inp], "observed": c05._jsonable(res["real"]), "expected": c05._jsonable(d["real"]), "count": 1}
            return None
        key, what = classify(inp, res)
        return {"key": key, "what": what, "inputs": [inp], "observed": c05._jsonable(res["real_full"]),
                "expected": c05._jsonable(res["expected"]), "count": 1}
    finally:
        _cleanup()


if __name__ == "__main__":
    c05.main(sys.argv, sys.modules[__name__])
