"""C12 - the nine search operators follow the documented typed rules; inversion is the complement.

Three checks on the REAL functions (oracle: spec/searches.py, written from the statement):

1. grid   - `Searches.search_matches(method, needle, haystack)` over the full grid
            9 operators x POOL haystacks x POOL needles (needle = str(member) for all nine
            methods, plus the raw member for the five order/equality methods), enumerated
            completely.  Equals the oracle; never raises for a well-formed term (needle a
            str, a valid pattern for REGEX; invalid patterns are counted out of scope, they
            belong to C15).  The statement quantifies over search TERMS, which are text: a
            disagreement that only occurs with a raw non-str needle (a document scalar, as the
            keyword scans pass it) is from-code and counted out of scope "C12/raw-needle-...".
            Numeric rules use the typed values; every textual rule the value's own text
            str(haystack).  An anchored boolean (ruamel ScalarBoolean, an int subclass) is a
            boolean document value: the oracle sees it as the bool it denotes.
2. random - the same contract on seeded random scalars.
3. inversion - for every list / hash / set / scalar document of rtc.gen.trees with N <= 3 nodes (thorough 4)
            and a seeded sample (quick 800, thorough 8000) of the documents one node larger,
            attr in {., a}, every operator and a small term pool: the plain search segment
            `[attr OP term]` yields exactly the candidates whose compared value satisfies the
            operator oracle, and `[attr!OP term]` yields exactly the other candidates.
            Candidates (which set is searched is from-code, the README only shows examples):
              list: its elements (compared value: the element for `.`, element[attr] for attr;
                    an element without the attribute does not match the plain search);
              hash: with `.` its values (compared value: the key); with an attr it has: that
                    one value; with an attr it lacks: the hash itself (never matches plain);
              set : its members (attr `.` only);
              scalar: the value itself (attr `.` only).
            Compared values that are containers are outside the statement ("every scalar
            value"): only the complement law is checked for them.  An Array-of-Hashes
            searched with `.` tests key membership (from-code): complement law only.

Witness keys are computed from the failing run (clause + cause class / raising frame).
"""
import datetime
import json
import random
import re
import sys
import traceback
import warnings

from rtc import gen, pathgen
from rtc.harness import Collector, pmap_chunks
from spec.searches import spec_search_matches, typed as spec_typed

warnings.simplefilter("ignore")

METHODS = ("EQUALS", "STARTS_WITH", "ENDS_WITH", "CONTAINS", "GREATER_THAN", "LESS_THAN",
           "GREATER_THAN_OR_EQUAL", "LESS_THAN_OR_EQUAL", "REGEX")
RAW_METHODS = ("EQUALS", "GREATER_THAN", "LESS_THAN", "GREATER_THAN_OR_EQUAL", "LESS_THAN_OR_EQUAL")
OP_OF = {"EQUALS": "=", "STARTS_WITH": "^", "ENDS_WITH": "$", "CONTAINS": "%", "GREATER_THAN": ">",
         "LESS_THAN": "<", "GREATER_THAN_OR_EQUAL": ">=", "LESS_THAN_OR_EQUAL": "<=", "REGEX": "=~"}
METHOD_OF = {v: k for k, v in OP_OF.items()}

# ---------------------------------------------------------------------------------------
# The scalar pool.  Members are JSON-able descriptors so that a witness input replays.
# ---------------------------------------------------------------------------------------
POOL = (
    ["none"], ["bool", True], ["bool", False],
    ["int", "0"], ["int", "1"], ["int", "-1"], ["int", "2"], ["int", "10"],
    ["int", "18446744073709551616"],
    ["float", "1.0"], ["float", "1.5"], ["float", "-0.0"], ["float", "0.0"], ["float", "1000.0"],
    ["float", "nan"], ["float", "inf"], ["float", "-inf"],
    ["str", "1"], ["str", "1.0"], ["str", "01"], ["str", " 1"], ["str", "1e3"], ["str", "-1"], ["str", "10"],
    ["str", "a"], ["str", "A"], ["str", "ab"], ["str", "b"],
    ["str", "true"], ["str", "True"], ["str", "TRUE"], ["str", "false"], ["str", "null"], ["str", "None"],
    ["str", ""], ["str", "nan"], ["str", "."], ["str", "["],
    ["str", "[1]"], ["str", "{a}"], ["str", "'x'"], ["str", "(1,)"], ["str", "{[1]:2}"], ["str", "1_000"],
    ["date", "2001-01-01"], ["yaml", "2001-01-01"], ["yaml", "2001-01-01T10:00:00Z"],
    ["yaml", "0x1F"], ["yaml", "1_000"], ["yaml", "1.50"], ["yaml", "-0.0"], ["yaml", "\"1\""], ["yaml", "'a'"],
    ["yaml", "&x 7"], ["yaml", "&y true"], ["yaml", "&z abc"], ["yaml", "&f 1.5"],
)


def build(desc):
    k = desc[0]
    if k == "none":
        return None
    if k == "bool":
        return bool(desc[1])
    if k == "int":
        return int(desc[1])
    if k == "float":
        return float(desc[1])
    if k == "str":
        return desc[1]
    if k == "date":
        return datetime.date.fromisoformat(desc[1])
    if k == "yaml":
        return gen.load("[" + desc[1] + "]")[0]
    raise ValueError("bad scalar descriptor %r" % (desc,))


def denote(obj):
    """The value handed to the oracle.  ruamel represents an ANCHORED boolean as
    ScalarBoolean, an int subclass that is not a bool; the document value is a boolean."""
    if type(obj).__name__ == "ScalarBoolean":
        return bool(obj)
    return obj


def kind(obj):
    """Shape class of a scalar (for distinct_nontrivial and for witness keys)."""
    sub = "" if type(obj) in (type(None), bool, int, float, str, datetime.date) else "~" + type(obj).__name__
    v = denote(obj)
    if isinstance(v, str):
        t = spec_typed(v)
        if t is None:
            return "str:none" + sub
        if isinstance(t, bool):
            return "str:bool" + sub
        if isinstance(t, int):
            return "str:int" + sub
        if isinstance(t, float):
            return "str:float" + sub
        if v == "":
            return "str:empty" + sub
        try:
            from ast import literal_eval
            lit = literal_eval(v)
            return "str:literal-%s%s" % (type(lit).__name__, sub)
        except Exception:
            return "str:text" + sub
    if v is None:
        return "none"
    if isinstance(v, bool):
        return "bool" + sub
    if isinstance(v, int):
        return "int" + sub
    if isinstance(v, float):
        if v != v:
            return "float:nan" + sub
        if v in (float("inf"), float("-inf")):
            return "float:inf" + sub
        return "float" + sub
    if isinstance(v, (datetime.date, datetime.datetime)):
        return "date" + sub
    return "other" + sub


def repo_frame(tb):
    """innermost frame inside the yamlpath package: 'common/nodes.py:typed_value'."""
    where = "outside-yamlpath"
    for fs in traceback.extract_tb(tb):
        fn = fs.filename.replace("\\", "/")
        if "/yamlpath/" in fn:
            where = "%s:%s" % (fn.split("/yamlpath/")[-1], fs.name)
    return where


def spec_branch(method, needle, hay):
    """Which clause of the statement decides this call (the oracle's branch)."""
    th, tn = spec_typed(denote(hay)), spec_typed(denote(needle))
    num = lambda v: isinstance(v, (int, float))
    if method == "EQUALS":
        if isinstance(th, bool) and isinstance(tn, bool):
            return "equals-bool-bool"
        if isinstance(th, int) and isinstance(tn, int) and not isinstance(tn, bool):
            return "equals-int-int"
        if isinstance(th, float) and isinstance(tn, float):
            return "equals-float-float"
        return "equals-textual"
    if method in ("STARTS_WITH", "ENDS_WITH", "CONTAINS", "REGEX"):
        return method.lower()
    if num(th):
        return "%s-numeric" % method.lower() if num(tn) else "%s-numeric-vs-non-numeric-term" % method.lower()
    return "%s-lexicographic" % method.lower()


def classify_mismatch(method, needle, hay):
    """Key of a wrong answer: the feature of the operands the code mishandles, else the failing clause."""
    from yamlpath.common import Nodes
    if type(hay).__name__ == "ScalarBoolean" or type(needle).__name__ == "ScalarBoolean":
        return "C12/anchored-boolean-compared-as-int"
    if isinstance(hay, str):
        try:
            tv = Nodes.typed_value(hay)
        except Exception:
            tv = hay
        th = spec_typed(hay)
        if isinstance(th, str) and not (isinstance(tv, str) and tv == hay) and str(tv) != str(hay):
            # typed_value turned text into a non-numeric Python literal (list, tuple, quoted str, complex ...)
            # whose text differs from the value's own text
            return "C12/haystack-text-replaced-by-evaluated-python-literal"
        if type(th) is not type(tv):
            return "C12/typed-value-disagrees-on-%s" % kind(hay).split("~")[0]
    if isinstance(needle, str):
        try:
            tvn = Nodes.typed_value(needle)
        except Exception:
            tvn = needle
        scalar_types = (type(None), bool, int, float)
        if type(spec_typed(needle)) is not type(tvn) and (
                isinstance(tvn, scalar_types) or isinstance(spec_typed(needle), scalar_types)):
            return "C12/typed-value-disagrees-on-%s" % kind(needle).split("~")[0]
    branch = spec_branch(method, needle, hay)
    if (branch in ("equals-int-int", "equals-float-float") and not isinstance(needle, str)
            and type(needle) not in (int, float, bool)):
        return "C12/equals-numeric-subclass-needle-not-compared-numerically"
    return "C12/%s-clause-wrong" % branch


def check_call(col, method, hay_desc, needle_desc, mode):
    """One native call against the oracle."""
    from yamlpath.common import Searches
    from yamlpath.enums import PathSearchMethods
    hay = build(hay_desc)
    nsrc = build(needle_desc)
    needle = str(nsrc) if mode == "str" else nsrc
    inp = {"check": "call", "method": method, "hay": hay_desc, "needle": needle_desc, "mode": mode}
    if mode != "str" and method not in RAW_METHODS:
        col.out_of_scope("non-str-needle-for-text-method")
        return
    if method == "REGEX":
        try:
            re.compile(needle)
        except re.error:
            col.out_of_scope("regex-invalid-pattern(C15)")
            return
    expected = spec_search_matches(method, denote(needle), denote(hay))
    # The statement quantifies over search TERMS, which are text.  A document scalar handed over as
    # the needle (keyword scans do that) is from-code: a disagreement there is counted, never a witness.
    raw_term = not isinstance(needle, str)
    try:
        got = Searches.search_matches(PathSearchMethods[method], needle, hay)
    except Exception as ex:  # the statement: never raises for a well-formed term
        where = repo_frame(sys.exc_info()[2])
        col.case(("call", method, kind(hay), kind(needle), mode, "raise", type(ex).__name__))
        key = "raises-%s@%s" % (type(ex).__name__, where)
        if raw_term:
            col.out_of_scope("C12/raw-needle-" + key)
            return
        col.witness("C12/" + key,
                    "search_matches raised for a well-formed term", inp,
                    observed="%s: %s" % (type(ex).__name__, ex), expected=expected)
        return
    sig = ("call", method, kind(hay), kind(needle), mode, bool(got))
    col.case(sig, sample={"method": method, "needle": repr(needle), "haystack": repr(hay), "result": bool(got)})
    if bool(got) != expected or not isinstance(got, bool):
        key = classify_mismatch(method, needle, hay)
        if raw_term:
            col.out_of_scope("C12/raw-needle-" + key.split("/", 1)[1])
            return
        col.witness(key,
                    "search_matches(%s) disagrees with the documented typed rule" % method, inp,
                    observed=repr(got), expected=expected)


# ---------------------------------------------------------------------------------------
# random scalars
# ---------------------------------------------------------------------------------------
TOKENS = ("0", "1", "2", "9", "10", "1.5", ".", "-", "+", "e", "E", "_", " ", "a", "A", "b", "x", "j",
          "true", "True", "FALSE", "None", "null", "nan", "inf", "[", "]", "(", ")", "{", "}", "'", "\"",
          ",", ":", "#", "*", "\\", "0x", "é")


def rand_scalar(rng):
    r = rng.random()
    if r < 0.08:
        return rng.choice((["none"], ["bool", True], ["bool", False]))
    if r < 0.22:
        if rng.random() < 0.8:
            return ["int", str(rng.randint(-20, 20))]
        return ["int", str(rng.getrandbits(70) - (1 << 69))]
    if r < 0.36:
        c = rng.random()
        if c < 0.25:
            return ["float", rng.choice(("nan", "inf", "-inf", "-0.0", "0.0"))]
        if c < 0.7:
            return ["float", repr(round(rng.uniform(-20, 20), rng.choice((0, 1, 2))))]
        return ["float", repr(rng.random() * 10 ** rng.randint(-6, 22))]
    if r < 0.56:
        n = rng.randint(-20, 20)
        f = round(rng.uniform(-20, 20), 2)
        return ["str", rng.choice(("%d" % n, "%+d" % n, " %d" % n, "%d " % n, "%03d" % n, "%.2f" % f, "%r" % f,
                                   "%.1e" % f, "%de%d" % (n, rng.randint(0, 3)), "%d_000" % n, "0x%x" % abs(n),
                                   "%d." % n, ".%d" % abs(n), "(%d)" % n, "[%d, %d]" % (n, n), "'%d'" % n,
                                   "%dj" % n, "%d+%dj" % (n, abs(n)), "b'%d'" % n, "{%d}" % n, "{%d: %d}" % (n, n),
                                   "{[%d]: 1}" % n, "{[%d]}" % n))]
    return ["str", "".join(rng.choice(TOKENS) for _ in range(rng.randint(0, 4)))]


def _grid_chunk(items, _unused=None):
    col = Collector()
    for method, hay_desc, needle_desc, mode in items:
        check_call(col, method, hay_desc, needle_desc, mode)
    return col.result(internal=True)


def _random_chunk(items, _unused=None):
    col = Collector()
    for hay_desc, needle_desc in items:
        for method in METHODS:
            check_call(col, method, hay_desc, needle_desc, "str")
        for method in RAW_METHODS:
            check_call(col, method, hay_desc, needle_desc, "raw")
    return col.result(internal=True)


# ---------------------------------------------------------------------------------------
# inversion over search segments
# ---------------------------------------------------------------------------------------
TERMS_QUICK = ("1", "a", "True", "")
TERMS_THOROUGH = ("1", "a", "True", "", "None", "b", "2")
ROOT = "<the-searched-node-itself>"


def is_container(v):
    from ruamel.yaml.comments import CommentedSet
    return isinstance(v, (dict, list, set, CommentedSet))


def candidates(data, attr):
    """-> (site, [(ref, node, decidable, compared_value_or_None, has_attr)]) ; from-code which set is searched."""
    from ruamel.yaml.comments import CommentedSet
    out = []
    if isinstance(data, list):
        site = "list-dot" if attr == "." else "list-attr"
        aoh = all(e is None or isinstance(e, dict) for e in data)
        for i, e in enumerate(data):
            if attr == ".":
                if aoh or is_container(e):
                    out.append((i, e, False, None, True))
                else:
                    out.append((i, e, True, e, True))
            elif isinstance(e, dict) and attr in e:
                v = e[attr]
                out.append((i, e, not is_container(v), v, True))
            elif is_container(e) and not isinstance(e, dict) and len(e) > 0:
                out.append((i, e, False, None, False))      # descendant search through a nested list/set: from-code
            else:
                out.append((i, e, True, None, False))       # no such attribute: the plain search does not match
        return site, out
    if isinstance(data, dict):
        if attr == ".":
            for k, v in data.items():
                out.append((k, v, True, k, True))
            return "hash-dot", out
        if attr in data:
            v = data[attr]
            out.append((attr, v, not is_container(v), v, True))
            return "hash-attr", out
        out.append((ROOT, data, True, None, False))
        return "hash-attr-absent", out
    if isinstance(data, (set, CommentedSet)):
        for m in data:
            out.append((m, m, True, m, True))
        return "set", out
    if data is not None and not is_container(data):
        if attr != ".":
            raise ValueError("harness: a scalar is searched with attr '.' only")
        return "scalar", [(ROOT, data, True, data, True)]      # the value itself is the one candidate
    raise ValueError("not a searchable node")


def run_query(proc, path):
    """-> ("ok", [(ref, node)]) | ("raise", ExcName, where, text)"""
    from yamlpath.exceptions import YAMLPathException
    try:
        res = []
        for nc in proc.get_nodes(path, mustexist=True):
            res.append((ROOT if nc.parent is None else nc.parentref, nc.node))
        return ("ok", res)
    except YAMLPathException as ex:
        if type(ex).__name__ == "UnmatchedYAMLPathException":
            return ("ok", [])
        return ("raise", type(ex).__name__, repo_frame(sys.exc_info()[2]), str(ex))
    except Exception as ex:
        return ("raise", type(ex).__name__, repo_frame(sys.exc_info()[2]), str(ex))


def _refkey(ref):
    return "%s:%r" % (type(ref).__name__, ref)


def check_inversion(col, doc_text, attr, op, term, data=None):
    from yamlpath import Processor, YAMLPath
    method = METHOD_OF[op]
    inp = {"check": "inversion", "doc": doc_text, "attr": attr, "op": op, "term": term}
    if method == "REGEX" and term == "":
        return
    paths = {}
    for inv in (False, True):
        p = pathgen.render([("search", inv, attr, op, term)])
        st = YAMLPath(p).escaped[0][1]
        if (st.inverted, st.attribute, str(st.method), st.term) != (inv, attr, op, term):
            # the search segment the harness wrote is not the one the parser delivers: whatever is compared next is not
            # the documented comparison of THIS term (a parser defect, reported here because the operators depend on it)
            col.witness("C12/search-term-not-delivered-as-written/%s" % ("empty-quoted-term" if term == "" else "other"),
                        "the path %r parses to (inverted, attribute, operator, term) = %r" % (p, (st.inverted, st.attribute, str(st.method), st.term)),
                        inp, observed=[st.inverted, st.attribute, str(st.method), st.term], expected=[inv, attr, op, term])
            return
        paths[inv] = p
    if data is None:
        data = gen.load(doc_text)
    site, cands = candidates(data, attr)
    proc = Processor(gen.quiet_logger(), data)
    plain = run_query(proc, paths[False])
    inverted = run_query(proc, paths[True])
    if plain[0] == "raise" or inverted[0] == "raise":
        r = plain if plain[0] == "raise" else inverted
        col.case(("inv", site, op, "raise", r[1], r[2]))
        # the comparison itself did not raise (that is check 1); a crash of the segment evaluator is C15's
        col.out_of_scope("search-segment-raises-%s@%s(C15)" % (r[1], r[2]))
        return
    pl, il = plain[1], inverted[1]
    cand_ids = {id(n) if ref is ROOT else _refkey(ref): (ref, n) for ref, n, _, _, _ in cands}

    def ids(lst):
        return [id(n) if ref is ROOT else _refkey(ref) for ref, n in lst]
    pids, iids = ids(pl), ids(il)
    col.case(("inv", site, op, len(cands), bool(pids), bool(iids),
              tuple(sorted(set(kind(c[3]) if c[2] and c[4] else ("container" if c[4] else "no-attr") for c in cands)))),
             sample={"doc": doc_text, "plain": paths[False], "n_plain": len(pids), "n_inverted": len(iids)})
    # results are candidates, each at most once, node identity preserved
    for label, got, lst in (("plain", pids, pl), ("inverted", iids, il)):
        if len(set(got)) != len(got) or any(g not in cand_ids for g in got):
            col.witness("C12/search-segment-%s-yields-non-candidate-or-duplicate@%s" % (label, site),
                        "a search segment yielded something other than each candidate at most once", inp,
                        observed=[str(g) for g in got], expected=[str(c) for c in cand_ids])
            return
        for g, (ref, n) in zip(got, lst):
            if cand_ids[g][1] is not n:
                col.witness("C12/search-segment-%s-yields-a-copy-not-the-node@%s" % (label, site),
                            "the yielded node is not the candidate object", inp, observed=repr(n), expected=repr(cand_ids[g][1]))
                return
    # per candidate: operator oracle where the compared value is a scalar
    for ref, n, decidable, cmpv, has_attr in cands:
        cid = id(n) if ref is ROOT else _refkey(ref)
        in_p, in_i = cid in pids, cid in iids
        if decidable:
            m = spec_search_matches(method, term, denote(cmpv)) if has_attr else False
            if in_p != m or in_i != (not m):
                if not has_attr and site == "list-attr":
                    key = "C12/list-attr-search-element-lacking-attribute-inherits-previous-match"
                elif not has_attr:
                    key = "C12/search-segment-wrong-for-candidate-lacking-attribute@%s" % site
                else:
                    # is the operator itself wrong on this pair (then check 1 reports it), or the segment logic?
                    from yamlpath.common import Searches
                    from yamlpath.enums import PathSearchMethods
                    try:
                        native = bool(Searches.search_matches(PathSearchMethods[method], term, cmpv))
                    except Exception:
                        native = None
                    if native is not None and in_p == native and in_i == (not native):
                        key = classify_mismatch(method, term, cmpv)
                    else:
                        key = "C12/search-segment-disagrees-with-its-own-comparison@%s" % site
                col.witness(key, "search segment result differs from {candidates satisfying the operator} / its complement",
                            inp, observed={"candidate": str(ref), "in_plain": in_p, "in_inverted": in_i},
                            expected={"in_plain": m, "in_inverted": not m})
                return
        elif in_p == in_i:
            col.witness("C12/inverted-search-not-the-complement-of-plain@%s" % site,
                        "a candidate is in both or in neither of the plain and the inverted result", inp,
                        observed={"candidate": str(ref), "in_plain": in_p, "in_inverted": in_i},
                        expected="in exactly one")
            return
        else:
            col.out_of_scope("container-or-key-membership-comparison(from-code)")


def _inversion_chunk(items, terms):
    col = Collector()
    for doc_text, attr in items:
        data = gen.load(doc_text)       # searching does not modify the document
        for op in pathgen.OPS:
            for term in terms:
                check_inversion(col, doc_text, attr, op, term, data)
    return col.result(internal=True)


def inversion_docs(max_nodes, sample_nodes=None, sample_size=0, rng=None):
    """Every list/hash/set document with <= max_nodes nodes (x attr), plus a seeded sample of
    `sample_size` documents with exactly `sample_nodes` nodes."""
    docs = []
    trees = list(gen.trees(max_nodes, 3))
    if sample_nodes:
        bigger = [t for t in gen.trees(sample_nodes, 3) if gen.size(t) > max_nodes]
        trees += rng.sample(bigger, min(sample_size, len(bigger)))
    for t in trees:
        if isinstance(t, gen.SetT):
            docs.append((gen.to_yaml(t), "."))
        elif isinstance(t, (list, dict)):
            docs.append((gen.to_yaml(t), "."))
            docs.append((gen.to_yaml(t), "a"))
        elif t is not None:
            docs.append((gen.to_yaml(t), "."))          # a scalar searched with `.`: the value itself
    # the canonical known case and a few anchored-boolean / look-alike values beyond the tree alphabet
    extra = ("[{a: 1}, {b: 2}]", "[{a: 1}, {b: 2}, {a: 2}, 3]", "[&y true, true, false]", "{a: &y true}",
             "[{a: \"'x'\"}, {a: x}]", "[\"[1, 2]\", \"[1,2]\"]", "[1.5, \"1.50\", 1, \"1\", true, \"true\", null]",
             # hashes whose keys look alike: several keys equal one term under the typed rules
             "{1: a, \"1\": b, 2: c, a: d}", "{true: a, \"True\": b, \"true\": c, other: d}", "{1.5: a, \"1.5\": b, \"1.50\": c}")
    for d in extra:
        docs.append((d, "."))
        docs.append((d, "a"))
    for d in ("1.5", "\"1.50\"", "b", "\"'x'\"", "false", "2001-01-01"):
        docs.append((d, "."))
    return docs


# ---------------------------------------------------------------------------------------
def assumption_checks():
    """str() of a ruamel scalar subclass equals str() of the plain value (DESIGN C12 assumption)."""
    bad = []
    for d in POOL:
        if d[0] == "yaml":
            x = build(d)
            p = gen.plain(x)
            if type(x).__name__ == "ScalarBoolean":
                p = bool(x)
            if str(x) != str(p):
                bad.append({"member": d, "type": type(x).__name__, "str": str(x), "str_of_plain": str(p)})
    return bad


def run(tier="quick", seed=0, jobs=None):
    thorough = tier == "thorough"
    col = Collector()
    # 1. grid, complete
    grid = []
    for method in METHODS:
        for h in POOL:
            for n in POOL:
                grid.append((method, h, n, "str"))
                if method in RAW_METHODS:
                    grid.append((method, h, n, "raw"))
    for r in pmap_chunks(_grid_chunk, grid, jobs, chunk=1500):
        col.merge(r)
    n_grid = col.evaluations
    # 2. random scalars
    rng = random.Random("c12-%s" % seed)
    n_pairs = 60000 if thorough else 3000
    pairs = [(rand_scalar(rng), rand_scalar(rng)) for _ in range(n_pairs)]
    for r in pmap_chunks(_random_chunk, pairs, jobs, chunk=400):
        col.merge(r)
    n_rand = col.evaluations - n_grid
    # 3. inversion: complete up to N nodes, seeded sample one size above
    max_nodes = 4 if thorough else 3
    sample_size = 8000 if thorough else 800
    terms = TERMS_THOROUGH if thorough else TERMS_QUICK
    docs = inversion_docs(max_nodes, max_nodes + 1, sample_size, rng)
    rng.shuffle(docs)   # balance the chunks
    for r in pmap_chunks(_inversion_chunk, docs, jobs, chunk=max(20, len(docs) // 400), extra=(terms,)):
        col.merge(r)
    n_inv = col.evaluations - n_grid - n_rand
    bounds = {
        "grid": {"methods": 9, "pool": len(POOL), "needle_modes": "str(member) for 9 methods + raw member for 5",
                 "calls": len(grid), "complete": True},
        "random": {"pairs": n_pairs, "calls_per_pair": 14, "seed": seed},
        "inversion": {"documents": "every rtc.gen.trees(N<=%d, depth<=3) document with a list/hash/set root + a seeded sample of %d "
                                   "documents with N=%d + %d hand-picked" % (max_nodes, sample_size, max_nodes + 1, 10),
                      "doc_x_attr": len(docs), "attrs": [".", "a"], "operators": 9, "terms": list(terms),
                      "complete": "all documents with N<=%d; N=%d sampled" % (max_nodes, max_nodes + 1)},
    }
    return col.result(
        rule=("search_matches(method, needle, haystack) == spec_search_matches and never raises, on the complete grid "
              "9 x %d x %d (str needles; raw needles for = > < >= <=) + %d random pairs; "
              "[attr OP term] / [attr!OP term] yield exactly the candidates satisfying / not satisfying the operator "
              "over every list/hash/set of gen.trees(N<=%d) and %d sampled ones with N=%d x attr{.,a} x 9 ops x %d terms"
              % (len(POOL), len(POOL), n_pairs, max_nodes, sample_size, max_nodes + 1, len(terms))),
        exhaustive=True, bounds=bounds,
        evaluations_by_check={"grid": n_grid, "random": n_rand, "inversion": n_inv},
        assumption_str_of_ruamel_scalar_equals_plain={"violations": assumption_checks()},
        tier=tier, seed=seed)


def replay(inp):
    col = Collector()
    if inp.get("check") == "call":
        check_call(col, inp["method"], inp["hay"], inp["needle"], inp["mode"])
    elif inp.get("check") == "inversion":
        check_inversion(col, inp["doc"], inp["attr"], inp["op"], inp["term"])
    else:
        raise ValueError("unknown replay input %r" % (inp,))
    ws = list(col.witnesses.values())
    return ws[0] if ws else None


if __name__ == "__main__":
    _tier = sys.argv[1] if len(sys.argv) > 1 else "quick"
    _seed = int(sys.argv[2]) if len(sys.argv) > 2 else 0
    _jobs = int(sys.argv[3]) if len(sys.argv) > 3 else None
    print(json.dumps(run(_tier, _seed, _jobs), indent=1, default=repr))
