"""C17 -- a failing or interrupted tool run never loses the user's file (fault enumeration).

Bounded stand-in, two parts, both driving the REAL `main()` of
`yamlpath.commands.yaml_set / yaml_merge / eyaml_rotate_keys` in-process (patched
sys.argv/stdin/stdout/stderr, SystemExit caught; an escaping exception is what a shell
sees as a traceback with status 1 and is recorded as status "EXC") inside a private
scratch directory whose listing and bytes are compared before/after every run.

(a) PRE-WRITE FAILURES.  Every failure cause the statement names -- unmatched required
    path (--mustexist / --delete / --saveto), failed --check, impossible change, merge
    conflict, anchor conflict (stop), unreadable / invalid / missing input, documented
    argument errors, existing --output -- x documents x option sets (with/without
    --backup, with/without a stale .bak, every destination of yaml-merge).  Contract:
    status != 0  =>  target byte-for-byte unchanged AND directory listing unchanged (no
    output, no .bak, a stale .bak untouched);  `yaml-merge --output EXISTING` never
    replaces the file, also when the inputs merge fine.  Where the docs say the cause is
    an error, status 0 is itself a witness.

(b) BACKUP + FAULT INJECTION.  For successful edits the names `open`, `copy2`, `remove`,
    `copyfileobj`, `tempfile.TemporaryFile`, `json.dump`, `print(file=)` as bound inside
    the command module, and ruamel's `YAML.dump/dump_all`, are wrapped.  A clean run
    records the I/O call sequence (reported in `samples`) and checks: with --backup the
    .bak is byte-identical to the pre-image.  Then, for every k, the k-th call fails
    with OSError -- "before" (the call has no effect) and, for the data-moving calls
    (dump, json.dump, print, copy2, copyfileobj), also "partial" (half of the bytes are
    written, then the error) -- with/without --backup, with/without a stale .bak.
    Contract with --backup:  target == ORIGINAL bytes  or  target.bak == ORIGINAL bytes
    after every faulted run.  Without --backup the statement promises nothing; a damaged
    target is counted in out_of_scope for the record.  A faulted save that ends with
    status 0 although the target is not the new document is reported too.
    An AssertionError raised by the YAML dump (the documented restore path of yaml-set,
    "The original file content was restored") must leave target == ORIGINAL.

Not covered (as in DESIGN.md): kill -9, power loss, short write(2) inside one call.
"""
import io
import json
import os
import shutil
import sys
import traceback

from rtc import gen
from rtc.harness import Collector, pmap_chunks

MODULE = "c17"
FAKE_EYAML = os.path.join(os.path.dirname(os.path.abspath(__file__)), "fake_eyaml")
PROGS = {"set": "yaml-set", "merge": "yaml-merge", "rotate": "eyaml-rotate-keys"}


def _mod(tool):
    from yamlpath.commands import yaml_set, yaml_merge, eyaml_rotate_keys
    return {"set": yaml_set, "merge": yaml_merge, "rotate": eyaml_rotate_keys}[tool]


def _fake():
    import importlib.machinery
    import importlib.util
    ldr = importlib.machinery.SourceFileLoader("rtc_fake_eyaml", FAKE_EYAML)
    spec = importlib.util.spec_from_loader("rtc_fake_eyaml", ldr)
    mod = importlib.util.module_from_spec(spec)
    ldr.exec_module(mod)
    return mod


class _TtyIn(io.StringIO):
    def isatty(self):
        return True


def innermost_repo_frame(tb):
    import yamlpath
    root = os.path.dirname(os.path.abspath(yamlpath.__file__))
    best = None
    for fr in traceback.extract_tb(tb):
        fn = os.path.abspath(fr.filename)
        if fn.startswith(root):
            best = "%s:%s" % (os.path.relpath(fn, root), fr.name)
    return best or "outside-yamlpath"


def run_main(tool, argv, stdin_text=None):
    import yamlpath.common.parsers as parsers_mod
    mod = _mod(tool)
    saved = (sys.argv, sys.stdin, sys.stdout, sys.stderr, parsers_mod.stdin)
    out, err = io.StringIO(), io.StringIO()
    sin = io.StringIO(stdin_text) if stdin_text is not None else _TtyIn("")
    sys.argv = [PROGS[tool]] + [str(a) for a in argv]
    sys.stdin = sin
    parsers_mod.stdin = sin
    sys.stdout, sys.stderr = out, err
    code, exc = 0, None
    try:
        mod.main()
    except SystemExit as ex:
        code = ex.code if ex.code is not None else 0
        if not isinstance(code, int):
            code = 1
    except Exception as ex:
        code = "EXC"
        exc = "%s@%s" % (type(ex).__name__, innermost_repo_frame(ex.__traceback__))
    finally:
        sys.argv, sys.stdin, sys.stdout, sys.stderr, parsers_mod.stdin = saved
    return {"code": code, "out": out.getvalue(), "err": err.getvalue(), "exc": exc}


# --------------------------------------------------------------------------
# I/O monitor + fault injector
# --------------------------------------------------------------------------
class InjectedFault(OSError):
    pass


class _JsonProxy:
    def __init__(self, real, dump):
        self._real, self.dump = real, dump

    def __getattr__(self, name):
        return getattr(self._real, name)


class _TempfileProxy:
    def __init__(self, real, temporary_file):
        self._real, self.TemporaryFile = real, temporary_file

    def __getattr__(self, name):
        return getattr(self._real, name)


class Monitor:
    """Wraps the I/O names of one command module; optionally fails the k-th faultable call.

    mode: "before"  -> raise OSError instead of performing the call
          "partial" -> (data-moving calls only) perform half of it, then raise OSError
          "assert-before" / "assert-partial" -> the same but AssertionError, only for YAML dump
          "...-unflushed" -> the partial output stays in the handle's buffer (no flush before the error)
    """
    DATA_KINDS = ("dump", "dump_all", "json.dump", "print", "copy2", "copyfileobj")

    def __init__(self, tool, wd, fault_at=None, mode="before"):
        self.tool, self.mod, self.wd = tool, _mod(tool), wd
        self.fault_at, self.mode = fault_at, mode
        self.calls = []          # labels of all recorded calls, in order
        self.faultable = []      # (label, kind) of the calls that count for k
        self.fired = None
        self._in_dump = False
        self._saved = {}

    # -- helpers
    def _name(self, p):
        if hasattr(p, "name"):
            p = p.name
        if isinstance(p, int):
            return "<fd>"
        p = str(p)
        if p.startswith(self.wd):
            return os.path.relpath(p, self.wd)
        return os.path.basename(p) or p

    def _step(self, label, kind):
        """Record a faultable call; returns the action to take: None | 'before' | 'partial'."""
        self.calls.append(label)
        self.faultable.append((label, kind))
        if self.fault_at is not None and len(self.faultable) == self.fault_at and self.fired is None:
            self.fired = (label, kind)
            return self.mode
        return None

    def _raise(self, label):
        if self.mode.startswith("assert"):
            raise AssertionError("injected assertion at %s" % label)
        raise InjectedFault(5, "injected I/O error at %s" % label)

    # -- wrappers
    def _open(self, file, mode="r", *a, **k):
        label = "open(%s,%s)" % (self._name(file), mode)
        act = self._step(label, "open")
        if act:
            self._raise(label)
        return open(file, mode, *a, **k)

    def _copy2(self, src, dst, *a, **k):
        label = "copy2(%s->%s)" % (self._name(src), self._name(dst))
        act = self._step(label, "copy2")
        if act == "before":
            self._raise(label)
        if act == "partial":
            with open(src, "rb") as fh:
                data = fh.read()
            with open(dst, "wb") as fh:
                fh.write(data[:len(data) // 2])
            self._raise(label)
        return shutil.copy2(src, dst, *a, **k)

    def _remove(self, path, *a, **k):
        label = "remove(%s)" % self._name(path)
        act = self._step(label, "remove")
        if act:
            self._raise(label)
        return os.remove(path, *a, **k)

    def _exists(self, path):
        self.calls.append("exists(%s)" % self._name(path))     # a read: recorded, never failed
        return os.path.exists(path)

    def _copyfileobj(self, src, dst, *a, **k):
        label = "copyfileobj(%s->%s)" % (self._name(src), self._name(dst))
        act = self._step(label, "copyfileobj")
        if act == "before":
            self._raise(label)
        if act == "partial":
            data = src.read()
            dst.write(data[:len(data) // 2])
            dst.flush()
            self._raise(label)
        return shutil.copyfileobj(src, dst, *a, **k)

    def _temporary_file(self, *a, **k):
        import tempfile
        label = "TemporaryFile()"
        act = self._step(label, "tempfile")
        if act:
            self._raise(label)
        return tempfile.TemporaryFile(*a, **k)

    def _json_dump(self, obj, fp, *a, **k):
        label = "json.dump(->%s)" % self._name(fp)
        act = self._step(label, "json.dump")
        if act == "before":
            self._raise(label)
        if act == "partial":
            text = json.dumps(obj, *a, **k)
            fp.write(text[:len(text) // 2])
            fp.flush()
            self._raise(label)
        return json.dump(obj, fp, *a, **k)

    def _print(self, *a, **k):
        fp = k.get("file")
        if fp is None or fp in (sys.stdout, sys.stderr):
            return print(*a, **k)
        label = "print(->%s)" % self._name(fp)
        act = self._step(label, "print")
        if act == "before":
            self._raise(label)
        if act == "partial":
            text = " ".join(str(x) for x in a)
            fp.write(text[:len(text) // 2])
            fp.flush()
            self._raise(label)
        return print(*a, **k)

    def _make_dump(self, real, kind):
        mon = self

        def wrapper(yaml_self, data, stream=None, *a, **k):
            if mon._in_dump or stream is None or isinstance(stream, io.StringIO):
                return real(yaml_self, data, stream, *a, **k)
            label = "%s(->%s)" % (kind, mon._name(stream))
            act = mon._step(label, kind)
            if act in ("before", "assert-before"):
                mon._raise(label)
            if act in ("partial", "assert-partial", "partial-unflushed", "assert-partial-unflushed"):
                buf = io.StringIO()
                mon._in_dump = True
                try:
                    real(yaml_self, data, buf, *a, **k)
                finally:
                    mon._in_dump = False
                text = buf.getvalue()
                stream.write(text[:max(1, len(text) // 2)])
                if not act.endswith("unflushed"):
                    stream.flush()
                mon._raise(label)
            mon._in_dump = True
            try:
                return real(yaml_self, data, stream, *a, **k)
            finally:
                mon._in_dump = False
        return wrapper

    def __enter__(self):
        from ruamel.yaml import YAML
        m = self.mod
        sentinel = object()
        for name, repl in (("open", self._open), ("copy2", self._copy2), ("remove", self._remove),
                           ("exists", self._exists), ("copyfileobj", self._copyfileobj), ("print", self._print)):
            if name in ("open", "print") or hasattr(m, name):
                self._saved[name] = m.__dict__.get(name, sentinel)
                setattr(m, name, repl)
        if hasattr(m, "json"):
            self._saved["json"] = m.json
            m.json = _JsonProxy(m.json, self._json_dump)
        if hasattr(m, "tempfile"):
            self._saved["tempfile"] = m.tempfile
            m.tempfile = _TempfileProxy(m.tempfile, self._temporary_file)
        self._sentinel = sentinel
        self._yaml_saved = (YAML.dump, YAML.dump_all)
        YAML.dump = self._make_dump(YAML.dump, "dump")
        YAML.dump_all = self._make_dump(YAML.dump_all, "dump_all")
        return self

    def __exit__(self, *exc):
        from ruamel.yaml import YAML
        YAML.dump, YAML.dump_all = self._yaml_saved
        for name, old in self._saved.items():
            if old is self._sentinel:
                delattr(self.mod, name)
            else:
                setattr(self.mod, name, old)
        return False


# --------------------------------------------------------------------------
# scratch directories
# --------------------------------------------------------------------------
class Box:
    """One fresh directory per run."""
    def __init__(self, root):
        self.root, self.n = root, 0
        self.wd = None

    def fresh(self, files):
        self.n += 1
        self.wd = os.path.join(self.root, "r%d" % self.n)
        os.makedirs(self.wd)
        for name, content in files.items():
            if isinstance(content, (list, tuple)) and content and content[0] == "symlink":
                continue
            with open(os.path.join(self.wd, name), "wb") as fh:
                fh.write(content.encode("utf-8") if isinstance(content, str) else content)
        for name, content in files.items():
            if isinstance(content, (list, tuple)) and content and content[0] == "symlink":
                os.symlink(content[1], os.path.join(self.wd, name))         # relative link to a sibling file
        return self.wd

    def snapshot(self):
        snap = {}
        for n in sorted(os.listdir(self.wd)):
            p = os.path.join(self.wd, n)
            if os.path.isfile(p):
                with open(p, "rb") as fh:
                    snap[n] = fh.read()
            else:
                snap[n] = "<dir>"
        return snap

    def drop(self):
        shutil.rmtree(self.wd, ignore_errors=True)


def subst(argv, wd):
    return [a.replace("@D", wd).replace("@X", FAKE_EYAML) for a in argv]


def _b2s(b):
    if b is None:
        return None
    return b.decode("utf-8", "replace")[:200] if isinstance(b, bytes) else b


# --------------------------------------------------------------------------
# (a) pre-write failures
# --------------------------------------------------------------------------
SET_DOCS = {
    "block": "a: 1\nb:\n  - x\n  - y\nc:\n  d: e\n",
    "json": '{"a": 1, "b": ["x", "y"], "c": {"d": "e"}}',
    "anchors": "a: &x 1\nb:\n  - *x\n  - y\nc:\n  d: e\n",
    "commented": "# top\na: 1  # one\nb: [x, y]\nc:\n  d: |\n    text\n",
}
# cause -> (argv before the file name, documented-as-error?)
SET_CAUSES = {
    "unmatched-path-mustexist": (["-g", "zz.yy", "-a", "1", "--mustexist"], True),
    "unmatched-path-delete": (["-g", "zz", "--delete"], True),
    "unmatched-path-saveto": (["-g", "zz", "-a", "1", "--saveto", "old"], True),
    "check-failed": (["-g", "c.d", "-a", "2", "--check", "not-the-value"], True),
    "impossible-change-key-under-scalar": (["-g", "a.sub", "-a", "1"], False),
    "impossible-change-index-under-scalar": (["-g", "a[0]", "-a", "1"], False),
    "impossible-change-key-under-array": (["-g", "b.sub.x", "-a", "1", "-m"], True),
    "malformed-path": (["-g", "b[", "-a", "1"], False),
    "saveto-multiple-matches": (["-g", "b.*", "-a", "1", "-s", "old"], False),
    "delete-document-root": (["-g", "/", "-D"], False),
    "aliasof-missing-anchor": (["-g", "a", "-A", "nothere"], False),
    "mergekey-from-scalar": (["-g", "c", "-K", "a"], False),
    "eyaml-binary-missing": (["-g", "a", "-a", "1", "-e", "-x", "/nonexistent/eyaml"], False),
    "value-file-missing": (["-g", "a", "-f", "@D/novalue.txt"], False),
    "args-no-input-option": (["-g", "a"], True),
    "args-saveto-equals-change": (["-g", "a", "-a", "1", "-s", "a"], True),
    "args-anchor-without-aliasof": (["-g", "a", "-a", "1", "-H", "nm"], True),
    "args-random-from-too-short": (["-g", "a", "-R", "5", "-M", "x"], True),
    "args-unreadable-privatekey": (["-g", "a", "-a", "1", "-r", "@D/nokey.pem"], True),
    "args-exclusive-inputs": (["-g", "a", "-a", "1", "-N"], True),
}
SET_BAD_INPUTS = {
    "input-invalid-yaml": "a: [1, 2\nb: 3\n",
    "input-duplicate-key": "a: 1\na: 2\n",
    "input-undefined-alias": "a: *nothere\n",
    "input-missing-file": None,
}

MERGE_LHS_OK = "a:\n  b: 1\nl:\n  - 1\n"
MERGE_RHS_OK = "a:\n  c: 2\nl:\n  - 2\n"
# cause -> (lhs, rhs, extra argv, documented?)
MERGE_CAUSES = {
    "conflict-array-into-hash": ("a:\n  b: 1\n", "a:\n  - 1\n", [], True),
    "conflict-hash-into-array": ("a:\n  - 1\n", "a:\n  b: 1\n", [], True),
    "conflict-hash-into-array-root": ("- 1\n- 2\n", "a: 1\n", ["-A", "left"], False),
    "anchor-conflict-stop": ("a: &x 1\nb: *x\n", "c: &x 2\nd: *x\n", [], True),
    "anchor-conflict-stop-explicit": ("a: &x 1\nb: *x\n", "c: &x 2\nd: *x\n", ["-a", "stop"], True),
    "rhs-invalid-yaml": (MERGE_LHS_OK, "a: [1\n", [], True),
    "lhs-invalid-yaml": ("a: {b\n", MERGE_RHS_OK, [], True),
    "rhs-duplicate-key": (MERGE_LHS_OK, "a: 1\na: 2\n", [], True),
    "rhs-missing-file": (MERGE_LHS_OK, None, [], True),
    "lhs-missing-file": (None, MERGE_RHS_OK, [], True),
    "mergeat-unmatched": (MERGE_LHS_OK, MERGE_RHS_OK, ["-m", "/a/b/deeper/still"], False),
    "mergeat-unmatched-search": ("s:\n  - name: web\n", "port: 1\n", ["-m", "/s[name=db]"], True),
    # a result that cannot be written in the requested format (JSON has no date / sequence keys): found out when the
    # output is prepared, i.e. before the destination is opened (flow-style roots are dumped as JSON without -D, too)
    "result-not-json-date-key(flow-root)": ("{2021-03-04: a, b: 1}\n", "{c: 2}\n", ["-D", "json"], False),
    "result-not-json-date-key(flow-root,auto-format)": ("{2021-03-04: a, b: 1}\n", "{c: 2}\n", [], False),
    "result-not-json-date-key(block-root)": ("2021-03-04: a\nb: 1\n", "c: 2\n", ["-D", "json"], False),
    "result-not-json-complex-key(flow-root)": ("{? [a, b] : 1, c: 2}\n", "{d: 3}\n", ["-D", "json"], False),
    "args-unreadable-config": (MERGE_LHS_OK, MERGE_RHS_OK, ["-c", "@D/noconfig.ini"], True),
    "args-bad-choice": (MERGE_LHS_OK, MERGE_RHS_OK, ["-A", "bogus"], True),
}
TARGET_OLD = "old: target\nkeep: me\n"
STALE = "stale: backup\n"


def prewrite_cases(tier):
    cases = []
    for docname, doc in SET_DOCS.items():
        fname = "doc.json" if docname == "json" else "doc.yaml"
        for cause, (argv, documented) in SET_CAUSES.items():
            for backup in (False, True):
                for stale in (False, True):
                    files = {fname: doc}
                    if stale:
                        files[fname + ".bak"] = STALE
                    cases.append({"part": "a", "tool": "set", "cause": cause, "doc": docname, "files": files,
                                  "argv": argv + (["--backup"] if backup else []) + ["@D/" + fname],
                                  "target": fname, "documented": documented, "backup": backup, "stale": stale})
    for cause, content in SET_BAD_INPUTS.items():
        for op in (["-g", "a", "-a", "1"], ["-g", "a", "-D"], ["-g", "a", "-a", "1", "-m", "-s", "old"]):
            for backup in (False, True):
                for stale in (False, True):
                    files = {} if content is None else {"doc.yaml": content}
                    if stale:
                        files["doc.yaml.bak"] = STALE
                    cases.append({"part": "a", "tool": "set", "cause": cause, "doc": cause, "files": files,
                                  "argv": op + (["-b"] if backup else []) + ["@D/doc.yaml"],
                                  "target": "doc.yaml", "documented": True, "backup": backup, "stale": stale})
    # stdin delivery: no file may appear at all
    for cause in ("unmatched-path-mustexist", "check-failed", "impossible-change-key-under-scalar"):
        argv, documented = SET_CAUSES[cause]
        cases.append({"part": "a", "tool": "set", "cause": cause + "(stdin-document)", "doc": "block", "files": {},
                      "argv": argv + ["-"], "stdin": SET_DOCS["block"], "target": None, "documented": documented,
                      "backup": False, "stale": False})
    cases.append({"part": "a", "tool": "set", "cause": "args-backup-with-stdin", "doc": "block", "files": {},
                  "argv": ["-g", "a", "-a", "1", "-b", "-"], "stdin": SET_DOCS["block"], "target": None,
                  "documented": True, "backup": True, "stale": False})

    # ---- yaml-merge
    dests = [("stdout", []), ("output-new", ["-o", "@D/new.yaml"]), ("overwrite", ["-w", "@D/target.yaml"]),
             ("overwrite-backup", ["-w", "@D/target.yaml", "-b"]), ("overwrite-lhs", ["-w", "@D/lhs.yaml"]),
             ("overwrite-lhs-backup", ["--overwrite=@D/lhs.yaml", "--backup"]), ("overwrite-json", ["-w", "@D/target.json", "-b"])]
    for cause, (lhs, rhs, extra, documented) in MERGE_CAUSES.items():
        for dname, dargv in dests:
            for stale in (False, True):
                files = {}
                if lhs is not None:
                    files["lhs.yaml"] = lhs
                if rhs is not None:
                    files["rhs.yaml"] = rhs
                target = None
                if dname.startswith("overwrite-lhs"):
                    target = "lhs.yaml"
                    if lhs is None:
                        continue
                elif dname == "overwrite-json":
                    files["target.json"] = '{"old": "target"}'
                    target = "target.json"
                elif dname.startswith("overwrite"):
                    files["target.yaml"] = TARGET_OLD
                    target = "target.yaml"
                if stale:
                    if target is None:
                        continue
                    files[target + ".bak"] = STALE
                cases.append({"part": "a", "tool": "merge", "cause": cause, "doc": dname, "files": files,
                              "argv": extra + dargv + ["@D/lhs.yaml", "@D/rhs.yaml"], "target": target,
                              "documented": documented, "backup": "backup" in dname or "-b" in dargv, "stale": stale})
    # a failing input that is not the last one: a later input that merges cleanly (or is empty) must not
    # turn the failure into a write-out
    later = {"then-empty-input": "---\n# nothing more\n", "then-good-input": "z: 9\n"}
    for cause in ("conflict-array-into-hash", "conflict-hash-into-array", "anchor-conflict-stop", "rhs-invalid-yaml",
                  "rhs-duplicate-key", "rhs-missing-file", "mergeat-unmatched-search"):
        lhs, rhs, extra, documented = MERGE_CAUSES[cause]
        for lname, ltext in later.items():
            if cause == "mergeat-unmatched-search" and lname != "then-empty-input":
                continue          # every non-empty later input fails the same way
            for dname, dargv in dests:
                if dname == "overwrite-json":
                    continue
                files = {"lhs.yaml": lhs, "later.yaml": ltext}
                if rhs is not None:
                    files["rhs.yaml"] = rhs
                target = None
                if dname.startswith("overwrite-lhs"):
                    target = "lhs.yaml"
                elif dname.startswith("overwrite"):
                    files["target.yaml"] = TARGET_OLD
                    target = "target.yaml"
                cases.append({"part": "a", "tool": "merge", "cause": "%s(%s)" % (cause, lname), "doc": dname, "files": files,
                              "argv": extra + dargv + ["@D/lhs.yaml", "@D/rhs.yaml", "@D/later.yaml"], "target": target,
                              "documented": documented, "backup": "backup" in dname or "-b" in dargv, "stale": False})
    # stdin as RHS
    for cause in ("conflict-array-into-hash", "anchor-conflict-stop", "rhs-invalid-yaml"):
        lhs, rhs, extra, documented = MERGE_CAUSES[cause]
        cases.append({"part": "a", "tool": "merge", "cause": cause + "(stdin-rhs)", "doc": "overwrite-backup",
                      "files": {"lhs.yaml": lhs, "target.yaml": TARGET_OLD}, "stdin": rhs,
                      "argv": extra + ["-w", "@D/target.yaml", "-b", "@D/lhs.yaml", "-"], "target": "target.yaml",
                      "documented": documented, "backup": True, "stale": False})
    # --output EXISTING is never replaced: good inputs and bad inputs alike
    for cause, (lhs, rhs) in {"existing-output(inputs-merge-fine)": (MERGE_LHS_OK, MERGE_RHS_OK),
                              "existing-output(inputs-conflict)": ("a:\n  b: 1\n", "a:\n  - 1\n"),
                              "existing-output(is-an-input)": (MERGE_LHS_OK, MERGE_RHS_OK)}.items():
        for fmt in ([], ["-D", "json"]):
            out = "lhs.yaml" if "is-an-input" in cause else "target.yaml"
            cases.append({"part": "a", "tool": "merge", "cause": cause, "doc": "output-existing",
                          "files": {"lhs.yaml": lhs, "rhs.yaml": rhs, "target.yaml": TARGET_OLD},
                          "argv": fmt + ["--output=@D/" + out, "@D/lhs.yaml", "@D/rhs.yaml"], "target": out,
                          "documented": True, "backup": False, "stale": False})
    # --output written with a leading ~ (the shell leaves --output=~/x alone): whatever the tool makes of the text, the
    # existing file that ~ names under $HOME is not replaced
    for cause, (lhs, rhs) in {"existing-output(tilde-path,inputs-merge-fine)": (MERGE_LHS_OK, MERGE_RHS_OK),
                              "existing-output(tilde-path,inputs-conflict)": ("a:\n  b: 1\n", "a:\n  - 1\n")}.items():
        cases.append({"part": "a", "tool": "merge", "cause": cause, "doc": "output-existing",
                      "files": {"lhs.yaml": lhs, "rhs.yaml": rhs, "target.yaml": TARGET_OLD}, "env": {"HOME": "@D"},
                      "argv": ["--output=~/target.yaml", "@D/lhs.yaml", "@D/rhs.yaml"], "target": "target.yaml",
                      "documented": True, "backup": False, "stale": False})
    for cause, argv in {"args-backup-without-overwrite": ["-b", "-o", "@D/new.yaml", "@D/lhs.yaml", "@D/rhs.yaml"],
                        "args-backup-to-stdout": ["-b", "@D/lhs.yaml", "@D/rhs.yaml"],
                        "args-output-and-overwrite": ["-o", "@D/new.yaml", "-w", "@D/target.yaml", "@D/lhs.yaml", "@D/rhs.yaml"],
                        "args-two-stdin-pseudo-files": ["-w", "@D/target.yaml", "-", "-"],
                        "args-no-input": ["-w", "@D/target.yaml", "-S"]}.items():
        cases.append({"part": "a", "tool": "merge", "cause": cause, "doc": "args",
                      "files": {"lhs.yaml": MERGE_LHS_OK, "rhs.yaml": MERGE_RHS_OK, "target.yaml": TARGET_OLD},
                      "argv": argv, "stdin": "a: 1\n" if "-" in argv else None, "target": "target.yaml",
                      "documented": True, "backup": "-b" in argv, "stale": False})
    return cases


def cause_group(cause):
    """The statement's failure classes; the concrete cause stays in the witness input."""
    c = cause.split("(")[0]
    if c.startswith("unmatched-path"):
        return "unmatched-required-path"
    if c == "check-failed":
        return "failed-check"
    if c.startswith("args-"):
        return "bad-arguments"
    if c.startswith(("input-", "rhs-", "lhs-")):
        return "unreadable-input"
    if c.startswith("anchor-conflict"):
        return "anchor-conflict"
    if c.startswith("conflict-") or c == "mergeat-unmatched":
        return "merge-conflict"
    if c.startswith("existing-output"):
        return "existing-output"
    return "impossible-change"


def check_prewrite(col, box, case):
    wd = box.fresh(case["files"])
    before = box.snapshot()
    saved_env = {k: os.environ.get(k) for k in case.get("env", {})}
    for k, v in case.get("env", {}).items():
        os.environ[k] = v.replace("@D", wd)
    try:
        r = run_main(case["tool"], subst(case["argv"], wd), case.get("stdin"))
    finally:
        for k, v in saved_env.items():
            if v is None:
                os.environ.pop(k, None)
            else:
                os.environ[k] = v
    after = box.snapshot()
    box.drop()
    tool, cause = PROGS[case["tool"]], case["cause"]
    group = cause_group(cause)
    col.case(("a", tool, cause, case["doc"], case["backup"], case["stale"], r["code"] if r["code"] in (0, "EXC") else "nz"),
             sample={"part": "a", "tool": tool, "cause": cause, "argv": case["argv"], "exit": r["code"], "exc": r["exc"],
                     "stderr": r["err"][:120]} if case["backup"] and case["stale"] else None)
    if r["code"] == 0:
        if after == before and not case["documented"]:
            col.out_of_scope("a/%s/%s-is-not-a-failure(no-change)" % (tool, cause))
        elif case["documented"]:
            replaced = case["target"] is not None and before.get(case["target"]) != after.get(case["target"])
            col.witness("C17/%s/%s/exit-zero%s" % (tool, group, "-and-target-replaced" if replaced else ""),
                        "a documented failure cause ends with status 0", case,
                        observed={"exit": 0, "changed": sorted(n for n in set(before) | set(after) if before.get(n) != after.get(n))},
                        expected="status != 0, nothing written")
        else:
            col.out_of_scope("a/%s/%s-is-not-a-failure(file-changed)" % (tool, cause))
        return
    # non-zero (or traceback): nothing may have changed
    if r["code"] == "EXC":
        col.out_of_scope("a/%s/%s/ends-with-traceback(%s)" % (tool, cause, r["exc"]))   # still a non-zero status
    target = case["target"]
    if target is not None and before.get(target) != after.get(target):
        col.witness("C17/%s/%s/target-modified-on-failure" % (tool, group),
                    "status != 0 but the target file is not byte-for-byte unchanged", case,
                    observed={"exit": r["code"], "exc": r["exc"], "target_after": _b2s(after.get(target))},
                    expected=_b2s(before.get(target)))
    appeared = sorted(n for n in after if n not in before)
    if appeared:
        kinds = sorted({"backup" if n.endswith(".bak") else "output" for n in appeared})
        col.witness("C17/%s/%s/%s-file-appeared-on-failure" % (tool, group, "+".join(kinds)),
                    "status != 0 but new files appeared", case,
                    observed={"exit": r["code"], "exc": r["exc"], "new": appeared}, expected="no new file")
    others = sorted(n for n in before if n != target and before[n] != after.get(n))
    if others:
        kinds = sorted({"stale-backup" if n.endswith(".bak") else "input" for n in others})
        col.witness("C17/%s/%s/%s-touched-on-failure" % (tool, group, "+".join(kinds)),
                    "status != 0 but another file was modified or removed", case,
                    observed={"exit": r["code"], "changed": others}, expected="untouched")


# --------------------------------------------------------------------------
# (b) backup + fault enumeration
# --------------------------------------------------------------------------
def fault_scenarios(tier, seed):
    fe = _fake()
    sc = []
    set_docs = [("block", "doc.yaml", "a: 1\nb:\n  - x\n  - y\n# tail\n"),
                ("json", "doc.json", '{"a": 1, "b": ["x", "y"]}'),
                ("flowyaml", "doc.yaml", "{a: 1, b: [x, y]}\n")]
    set_ops = [("value", ["-g", "a", "-a", "2"]), ("delete", ["-g", "b[0]", "-D"]), ("null-new-key", ["-g", "n.k", "-N"]),
               ("saveto", ["-g", "a", "-a", "3", "-s", "old_a"]), ("value-from-file", ["-g", "a", "-f", "@D/value.txt"])]
    if tier != "quick":
        import random
        rng = random.Random(seed)
        from rtc import c16
        for i in range(60):
            t = gen.random_tree(rng, max_nodes=8, max_depth=3, keys=("a", "b", "c"))
            if isinstance(t, dict) and t and not isinstance(t, gen.SetT):
                set_docs.append(("rnd%d" % i, "doc.yaml", c16.to_block(dict(t, a="orig"))))
    sc.append({"tool": "set", "scenario": "symlinked-doc/value", "files": {"real.yaml": set_docs[0][2], "doc.yaml": ["symlink", "real.yaml"]},
               "argv": ["-g", "a", "-a", "2", "@D/doc.yaml"], "target": "doc.yaml"})
    for dname, fname, doc in set_docs:
        for oname, argv in set_ops:
            if dname.startswith("rnd") and oname != "value":
                continue
            files = {fname: doc}
            if oname == "value-from-file":
                files["value.txt"] = "from file\n"
            sc.append({"tool": "set", "scenario": "%s/%s" % (dname, oname), "files": files, "argv": argv + ["@D/" + fname],
                       "target": fname})
    merges = [
        ("yaml", {"lhs.yaml": MERGE_LHS_OK, "rhs.yaml": MERGE_RHS_OK, "target.yaml": TARGET_OLD},
         ["-w", "@D/target.yaml", "@D/lhs.yaml", "@D/rhs.yaml"], "target.yaml"),
        ("json", {"lhs.yaml": MERGE_LHS_OK, "rhs.yaml": MERGE_RHS_OK, "target.json": '{"old": "target"}'},
         ["-w", "@D/target.json", "@D/lhs.yaml", "@D/rhs.yaml"], "target.json"),
        ("onto-lhs", {"lhs.yaml": MERGE_LHS_OK, "rhs.yaml": MERGE_RHS_OK},
         ["-w", "@D/lhs.yaml", "@D/lhs.yaml", "@D/rhs.yaml"], "lhs.yaml"),
        ("multidoc-yaml", {"lhs.yaml": "---\na: 1\n---\na: 2\n", "rhs.yaml": "b: 1\n", "target.yaml": TARGET_OLD},
         ["-M", "matrix_merge", "-w", "@D/target.yaml", "@D/lhs.yaml", "@D/rhs.yaml"], "target.yaml"),
        ("multidoc-json", {"lhs.yaml": "---\na: 1\n---\na: 2\n", "rhs.yaml": "b: 1\n", "target.json": '{"old": "target"}'},
         ["-M", "matrix_merge", "-D", "json", "-w", "@D/target.json", "@D/lhs.yaml", "@D/rhs.yaml"], "target.json"),
        ("stdin-rhs", {"lhs.yaml": MERGE_LHS_OK, "target.yaml": TARGET_OLD},
         ["-w", "@D/target.yaml", "@D/lhs.yaml", "-"], "target.yaml"),
        # the --overwrite target is a symbolic link to the real document (read through the link: its bytes are the pre-image)
        ("symlinked-target", {"lhs.yaml": MERGE_LHS_OK, "rhs.yaml": MERGE_RHS_OK, "real.yaml": TARGET_OLD, "target.yaml": ["symlink", "real.yaml"]},
         ["-w", "@D/target.yaml", "@D/lhs.yaml", "@D/rhs.yaml"], "target.yaml"),
    ]
    for name, files, argv, target in merges:
        sc.append({"tool": "merge", "scenario": name, "files": files, "argv": argv, "target": target,
                   "stdin": MERGE_RHS_OK if name == "stdin-rhs" else None})
    keys = {"opub": "FAKE-EYAML PUBLIC KEY old-pair\n", "opriv": "FAKE-EYAML PRIVATE KEY old-pair\n",
            "npub": "FAKE-EYAML PUBLIC KEY new-pair\n", "npriv": "FAKE-EYAML PRIVATE KEY new-pair\n"}
    s1 = fe.encrypt_text("first secret", "old-pair")
    s2 = fe.encrypt_text("the second, longer secret value", "old-pair", "block")
    blk = "\n".join("    " + ln.strip() for ln in s2.split("\n"))
    edoc = "# secrets\nplain: text\none: %s\ntwo: >\n%s\nlist:\n  - %s\n" % (s1, blk, s1)
    rot = ["-x", "@X", "-i", "@D/opriv", "-c", "@D/opub", "-r", "@D/npriv", "-u", "@D/npub"]
    sc.append({"tool": "rotate", "scenario": "one-file", "files": dict(keys, **{"sec.yaml": edoc}),
               "argv": rot + ["@D/sec.yaml"], "target": "sec.yaml"})
    sc.append({"tool": "rotate", "scenario": "second-of-two-files",
               "files": dict(keys, **{"first.yaml": "k: %s\n" % s1, "sec.yaml": edoc}),
               "argv": rot + ["@D/first.yaml", "@D/sec.yaml"], "target": "sec.yaml"})
    cases = []
    for s in sc:
        for backup in (False, True):
            for stale in (False, True):
                c = dict(s, part="b", backup=backup, stale=stale)
                c["files"] = dict(s["files"])
                if stale:
                    c["files"][s["target"] + ".bak"] = STALE
                if backup:
                    c["argv"] = ["--backup"] + s["argv"]
                cases.append(c)
    return cases


def _run_monitored(box, case, fault_at=None, mode="before"):
    wd = box.fresh(case["files"])
    before = box.snapshot()
    with Monitor(case["tool"], wd, fault_at, mode) as mon:
        r = run_main(case["tool"], subst(case["argv"], wd), case.get("stdin"))
    after = box.snapshot()
    box.drop()
    return r, mon, before, after


def _modes_for(kind, tool):
    modes = ["before"]
    if kind in Monitor.DATA_KINDS:
        modes.append("partial")
    if kind in ("dump", "dump_all"):
        # the emitter fails after part of its output sits in the handle's buffer, not yet on disk: whatever the
        # tool does next, closing that handle later flushes those bytes
        modes.append("partial-unflushed")
    if kind in ("dump", "dump_all") and tool == "set":
        modes += ["assert-before", "assert-partial", "assert-partial-unflushed"]
    return modes


def check_fault(col, box, case):
    tool = PROGS[case["tool"]]
    target, bak = case["target"], case["target"] + ".bak"
    only = case.get("fault")          # replay of a single injection
    # ---- clean run
    r, mon, before, after = _run_monitored(box, case)
    orig = before[target]
    sig = (tool, case["scenario"].split("/")[-1] if case["scenario"].startswith("rnd") else case["scenario"],
           case["backup"], case["stale"])
    col.case(("b-clean",) + sig + (tuple(mon.calls), r["code"]),
             sample={"part": "b", "tool": tool, "scenario": case["scenario"], "backup": case["backup"],
                     "stale_bak": case["stale"], "io_calls": mon.calls, "exit": r["code"]})
    if case["scenario"].startswith("rnd") and (r["code"] != 0 or after.get(target) == orig):
        col.out_of_scope("b/%s/random-document-scenario-not-a-successful-edit" % tool)
        return
    if r["code"] != 0:
        # a run that fails without any injected fault still falls under the statement
        if after.get(target) != orig and after.get(bak) != orig:
            col.witness("C17/%s/unfaulted-run-fails-and-loses-original" % tool,
                        "no fault injected: the run fails and neither target nor .bak holds the original", case,
                        observed={"exit": r["code"], "exc": r["exc"], "io_calls": mon.calls, "files": sorted(after)},
                        expected="exit 0, or an untouched target")
            return
        raise RuntimeError("fault scenario does not succeed cleanly: %r -> %r %s %s" % (case["argv"], r["code"], r["exc"], r["err"]))
    new = after.get(target)
    if new == orig:
        raise RuntimeError("fault scenario does not change its target: %r" % (case["argv"],))
    if case["backup"]:
        if after.get(bak) != orig:
            col.witness("C17/%s/backup-not-identical-to-preimage" % tool,
                        "after a successful --backup run the .bak is not a byte-identical copy of the pre-image", case,
                        observed=_b2s(after.get(bak)), expected=_b2s(orig))
        extra = sorted(n for n in after if n not in before and not n.endswith(".bak"))
        if extra:
            col.witness("C17/%s/unexpected-files-after-backup-run" % tool, "files other than the .bak appeared", case,
                        observed=extra, expected=[bak])
    else:
        if case["stale"] and after.get(bak) != before.get(bak):
            col.out_of_scope("b/%s/no-backup-requested/stale-bak-touched" % tool)
        if not case["stale"] and bak in after:
            col.witness("C17/%s/backup-created-without-backup-option" % tool, "a .bak appeared without --backup", case,
                        observed=sorted(after), expected="no .bak")
    # ---- faults
    plan = []
    for k, (label, kind) in enumerate(mon.faultable, start=1):
        for mode in _modes_for(kind, case["tool"]):
            plan.append((k, mode, label, kind))
    if only:
        plan = [p for p in plan if p[0] == only["k"] and p[1] == only["mode"]]
    for k, mode, label, kind in plan:
        fr, fmon, fbefore, fafter = _run_monitored(box, case, k, mode)
        if fmon.fired is None or fmon.fired[0] != label:
            raise RuntimeError("fault %d/%s did not fire at %s (fired %r)" % (k, mode, label, fmon.fired))
        t_after, b_after = fafter.get(target), fafter.get(bak)
        t_ok, b_ok = t_after == orig, b_after == orig
        state = ("target=%s" % ("ORIG" if t_ok else "NEW" if t_after == new else "ABSENT" if t_after is None else
                                "EMPTY" if t_after == b"" else "PARTIAL"),
                 "bak=%s" % ("ORIG" if b_ok else "ABSENT" if b_after is None else "STALE" if b_after == STALE.encode() else
                             "EMPTY" if b_after == b"" else "PARTIAL"))
        generic = _generic_label(label, target)
        col.case(("b-fault",) + sig + (generic, mode, state, fr["code"] if fr["code"] in (0, "EXC") else "nz"))
        finp = dict(case, fault={"k": k, "mode": mode, "call": label})
        if mode.startswith("assert"):
            # yaml-set's documented restore path
            if not t_ok:
                col.witness("C17/%s/dump-assertion-restore-path/target-not-restored(%s)" % (tool, mode),
                            "AssertionError from the YAML dump: the tool says it restores the original content", finp,
                            observed={"exit": fr["code"], "exc": fr["exc"], "state": state, "target": _b2s(t_after)},
                            expected=_b2s(orig))
            continue
        if case["backup"]:
            if not (t_ok or b_ok):
                col.witness("C17/%s/fault@%s(%s)/original-lost-despite-backup" % (tool, generic, mode),
                            "a single failing I/O step left neither the target nor target.bak with the original bytes", finp,
                            observed={"exit": fr["code"], "exc": fr["exc"], "state": state, "io_calls": fmon.calls},
                            expected="target == original or .bak == original")
        elif not t_ok and t_after != new:
            col.out_of_scope("b/%s/no-backup/target-damaged-by-fault@%s(%s)" % (tool, generic, mode))
        if fr["code"] == 0 and t_after != new:
            col.witness("C17/%s/fault@%s(%s)/exit-zero-after-failed-save" % (tool, generic, mode),
                        "the save failed but the tool reports success", finp,
                        observed={"state": state, "io_calls": fmon.calls}, expected="status != 0")


def _generic_label(label, target):
    """Call label with the concrete file names replaced by their role."""
    return (label.replace(target + ".bak", "BAK").replace(target, "TARGET"))


# --------------------------------------------------------------------------
# workers / API
# --------------------------------------------------------------------------
def _root():
    root = os.path.join("/tmp", MODULE, str(os.getpid()))
    os.makedirs(root, exist_ok=True)
    return root


def _dispatch(col, box, case):
    if case["part"] == "a":
        check_prewrite(col, box, case)
    else:
        check_fault(col, box, case)


def _work(chunk):
    root = _root()
    col = Collector(max_samples=40)
    box = Box(root)
    try:
        for case in chunk:
            _dispatch(col, box, case)
    finally:
        shutil.rmtree(root, ignore_errors=True)
    return col.result(internal=True)


def run(tier="quick", seed=0, jobs=None):
    if not os.access(FAKE_EYAML, os.X_OK):
        raise RuntimeError("stand-in eyaml executable missing or not executable: " + FAKE_EYAML)
    a_cases = prewrite_cases(tier)
    b_cases = fault_scenarios(tier, seed)
    cases = b_cases + a_cases
    total = Collector(max_samples=14)
    parts = pmap_chunks(_work, cases, jobs=jobs, chunk=max(1, len(cases) // 96))
    # keep one clean-run sample (the I/O sequence) per tool/backup/stale first, then part (a)
    seen = set()
    for part in parts:
        keep = []
        for s in part["samples"]:
            key = (s.get("tool"), s.get("part"), s.get("backup"), s.get("stale_bak"), s.get("scenario", s.get("cause")))
            tkey = (s.get("tool"), s.get("part"), s.get("backup"), s.get("stale_bak"))
            if tkey in seen:
                continue
            seen.add(tkey)
            keep.append(s)
        part["samples"] = keep
        total.merge(part)
    try:
        os.rmdir(os.path.join("/tmp", MODULE))
    except OSError:
        pass
    causes = sorted(SET_CAUSES) + sorted(SET_BAD_INPUTS) + sorted(MERGE_CAUSES)
    return total.result(
        rule=("(a) every pre-write failure cause of yaml-set / yaml-merge x documents x {--backup} x {stale .bak} x "
              "merge destinations: status != 0 => directory byte-identical; --output EXISTING never replaced.  "
              "(b) for every successful-edit scenario of yaml-set / yaml-merge --overwrite / eyaml-rotate-keys x "
              "{--backup} x {stale .bak}: clean run (.bak == pre-image), then OSError at the k-th wrapped I/O call "
              "(open, copy2, remove, copyfileobj, TemporaryFile, YAML dump/dump_all, json.dump, print(file=)) for every "
              "k, 'before' and 'partial' modes (+ AssertionError at the YAML dump of yaml-set): with --backup "
              "target==ORIG or .bak==ORIG"),
        exhaustive=True,
        bounds={"tier": tier, "seed": seed, "prewrite_cases": len(a_cases), "fault_scenarios": len(b_cases),
                "causes": causes, "set_documents": sorted(SET_DOCS), "fault_modes": ["before", "partial", "assert-*"],
                "exhaustive_over": "every k of every scenario's recorded call sequence; scenarios/documents are a fixed list"},
    )


def replay(inp):
    root = _root()
    col = Collector()
    box = Box(root)
    try:
        _dispatch(col, box, inp)
    finally:
        shutil.rmtree(root, ignore_errors=True)
    ws = list(col.witnesses.values())
    return ws[0] if ws else None


if __name__ == "__main__":
    tier = sys.argv[1] if len(sys.argv) > 1 else "quick"
    seed = int(sys.argv[2]) if len(sys.argv) > 2 else 0
    jobs = int(sys.argv[3]) if len(sys.argv) > 3 else None
    print(json.dumps(run(tier, seed, jobs), indent=1, default=repr))
