"""rtc.c06 -- bounded stand-in for C06 "a diff is truthful and complete; it is empty of
changes iff the data are equal".

Runs the REAL `yamlpath.differ.Differ` (`Differ(config, logger, lhs)`,
`.compare_to(rhs)`, `.get_report()`) on pairs of documents x array modes
(position, value) x Array-of-Hashes modes (position, dpos, value, key, deep) and
hands the report, as plain data, to the oracle `spec.diff.diff_truth`, which
knows nothing of the Differ.  Entry paths are `DiffEntry.path.original` (the
text the Differ itself concatenated) parsed by the oracle's own key/index
parser and resolved by the oracle's own resolver: neither YAMLPath's parser
nor the Processor sits between the Differ and the verdict.

Input space (bounds are in `run()` and reported in `bounds`):
  A  every ordered pair of `rtc.gen.trees(...)` documents (identical, single and
     multiple edits within the bound, unrelated; nulls, empty containers, sets,
     type clashes), each pair in all 10 mode combinations;
  C  every ordered pair of small Arrays-of-Hashes (records over two fields,
     field order varied, records missing a field, empty records), all modes;
  B  every single insert/delete/replace/reorder edit of larger base documents,
     both directions, all modes;
  D  seeded random documents (rtc.gen.random_tree and an AoH-biased
     generator), 1-4 random edits or an unrelated partner, all modes.
Modes reach the Differ as yaml-diff passes them (argparse namespace), through an
INI file's [defaults], through both (command line over [defaults]), and -- for
key/deep -- with an identity field named in the INI file's [keys].
`yaml_diff.print_report` is called on every report (true exactly when some
entry is not SAME; what it prints under --same / --onlysame / neither) and
`yaml_diff.main()` is run in-process on a few file pairs for the exit status.

Out of scope (counted, never a witness): key/deep on a document holding a
sequence with both hash and non-hash members (the property keeps those modes to
sequences whose members are all hashes); "differ as data" verdicts that hinge on
which mode governs such a mixed sequence in the other modes; key/deep "differ as
data" verdicts on NON-identical documents where a record lacks the identity
field or two records share its value (matching by key is then not a function;
a document compared with ITSELF stays in scope: reflexivity is unconditional).

Witness keys.  All failed clauses of one case are grouped by cause; the key is
`C06/<named cause>` when the shape class of the failing place (`locus`: the kinds
of the two nodes where the walk along the failing path stops, the pair above
them, the mode governing a sequence pair) matches one of the predicates of
`_named_cause`, else `C06/<clause group>/<shape class>` -- so an unforeseen
failure mode surfaces under a key of its own.  Exceptions are keyed by type and
innermost yamlpath frame.  Classification never decides a verdict.

Not a C06 matter but met on the way: `DiffEntry.__str__` (print_report, not
quiet) runs `Parsers.jsonify_yaml_data` over entry values, which rewrites !!set
nodes nested in the caller's documents into mappings IN PLACE; the harness
therefore prints reports only for set-free pairs.
"""
import contextlib
import io
import itertools
import json
import os
import random
import shutil
import sys
import tempfile
import traceback
from types import SimpleNamespace

from rtc import gen, harness
from spec import diff as spec

ARRAYS = ("position", "value")
AOHS = ("position", "dpos", "value", "key", "deep")
MODES = [(a, o) for a in ARRAYS for o in AOHS]

_LOG = None
_PKG = None


def _lib():
    """Late import so that PYTHONPATH decides which yamlpath tree runs."""
    global _LOG, _PKG
    import yamlpath
    from yamlpath.differ import Differ, DifferConfig
    from yamlpath.exceptions import YAMLPathException
    from yamlpath.commands import yaml_diff
    from yamlpath.enums import PathSeparators
    if _LOG is None:
        _LOG = gen.quiet_logger()
        _PKG = os.path.dirname(os.path.abspath(yamlpath.__file__))
    return Differ, DifferConfig, YAMLPathException, yaml_diff, PathSeparators


# --------------------------------------------------------------------------- configuration routes
def ini_text(arrays, aoh, keys=None):
    out = ["[defaults]"]
    if arrays:
        out.append("arrays = %s" % arrays)
    if aoh:
        out.append("aoh = %s" % aoh)
    if keys:
        out.append("[keys]")
        for p, k in keys.items():
            out.append("%s = %s" % (p, k))
    return "\n".join(out) + "\n"


def _other(arrays, aoh):
    return (ARRAYS[1 - ARRAYS.index(arrays)], AOHS[(AOHS.index(aoh) + 2) % len(AOHS)])


_CFG_CACHE = {}


def config_for(inp, inidir):
    """The DifferConfig for a case, built the way yaml-diff builds it."""
    _, DifferConfig, _, _, _ = _lib()
    via = inp.get("via", "args")
    arrays, aoh, keys = inp.get("arrays"), inp.get("aoh"), inp.get("keys")
    ck = (via, arrays, aoh, json.dumps(keys, sort_keys=True), inidir)
    cfg = _CFG_CACHE.get(ck)
    if cfg is not None:
        return cfg
    if via == "args":
        ns = SimpleNamespace(arrays=arrays, aoh=aoh, config=None)
    else:
        if via == "ini":
            text = ini_text(arrays, aoh, keys)
            ns = SimpleNamespace(arrays=None, aoh=None)
        elif via == "args+ini":            # the command line overrides [defaults]
            oa, oo = _other(arrays or "position", aoh or "position")
            text = ini_text(oa, oo, keys)
            ns = SimpleNamespace(arrays=arrays or "position", aoh=aoh or "position")
        else:
            raise ValueError("unknown via %r" % (via,))
        name = "c06_%s.ini" % harness.stable_hash([via, arrays, aoh, keys])
        path = os.path.join(inidir, name)
        if not os.path.exists(path):
            tmp = path + ".%d.tmp" % os.getpid()
            with open(tmp, "w") as fh:
                fh.write(text)
            os.replace(tmp, path)
        ns.config = path
    cfg = DifferConfig(_LOG, ns)
    if via != "args" and cfg.config is None:
        raise RuntimeError("harness: INI file was not read: %r" % (ns.config,))
    _CFG_CACHE[ck] = cfg
    return cfg


# --------------------------------------------------------------------------- classification helpers
def _desc(found, x):
    """Kind label of one node: absent null scalar map map0 set set0 seq0 seq:aoh seq:arr seq:mix."""
    if not found:
        return "absent"
    k = spec.kind(x)
    if k == "seq":
        return "seq0" if not x else "seq:" + {"aoh": "aoh", "array": "arr", "mixed": "mix"}[spec.list_class(x)]
    if k in ("map", "set"):
        return k + ("" if len(x) else "0")
    return k


def _seq_mode(pl, pr, arrays, aoh):
    """Which mode governs a pair of sequences (label, synchronised?)."""
    cls = {spec.list_class(pl), spec.list_class(pr)} - {"empty"}
    if cls <= {"array"}:
        return "A=" + arrays, arrays == "value"
    if cls <= {"aoh"}:
        return "O=" + aoh, aoh in spec.AOH_SYNC
    # hashes and non-hashes meet: the documentation is silent; label by what the first
    # right-hand member is (from-code, affects the label of the failing place only)
    if pr and isinstance(pr[0], dict):
        return "O=%s(mixed)" % aoh, aoh in spec.AOH_SYNC
    return "A=%s(mixed)" % arrays, arrays == "value"


def _pair_desc(fl, l, fr, r, arrays, aoh):
    s = "%s~%s" % (_desc(fl, l), _desc(fr, r))
    sync = False
    if fl and fr and spec.kind(l) == "seq" and spec.kind(r) == "seq":
        mode, sync = _seq_mode(l, r, arrays, aoh)
        s += "[%s%s]" % (mode, ",null-element" if (None in l or None in r) else "")
    elif fl and fr and spec.kind(l) == "map" and spec.kind(r) == "map" and l and r \
            and list(l) != list(r) and spec.strict_equal(l, r):
        s += "(key-order)"
    return s, sync


def _whole_unit(cl, cr, aoh):
    """aoh=position compares records as whole units: do not walk into them."""
    return aoh == "position" and bool(cl) and bool(cr) and isinstance(cr[0], dict)


def _matching(l_list, r_list, aoh, aoh_key, by_key):
    """Greedy pairing of a synchronised sequence pair, left to right, each right member
    used once: by identity value (key/deep on hashes) or by equality (true == 1 counts:
    that conflation has its own name).  A labelling aid: it decides where a failing
    path continues below a synchronised sequence, never a verdict.
    Returns ({left index: right index}, {right index: left index})."""
    field = None
    if by_key:
        field = aoh_key
        if field is None and r_list and isinstance(r_list[0], dict) and r_list[0]:
            field = next(iter(r_list[0]))
    free = list(range(len(r_list)))
    l2r, r2l = {}, {}
    for i, e in enumerate(l_list):
        for j in free:
            x = r_list[j]
            if by_key:
                ok = (field is not None and isinstance(e, dict) and isinstance(x, dict)
                      and field in e and field in x and spec.loose_equal(e[field], x[field]))
            else:
                ok = spec.loose_equal(e, x)
            if ok:
                l2r[i] = j
                r2l[j] = i
                free.remove(j)
                break
    return l2r, r2l


def _partner(idx, own_is_left, l_list, r_list, arrays, aoh, aoh_key):
    mode, _ = _seq_mode(l_list, r_list, arrays, aoh)
    by_key = mode.startswith("O=") and aoh in ("key", "deep")
    l2r, r2l = _matching(l_list, r_list, aoh, aoh_key, by_key)
    if own_is_left:
        j = l2r.get(idx)
        return None if j is None else r_list[j]
    i = r2l.get(idx)
    return None if i is None else l_list[i]


def first_difference(l, r, arrays, aoh, aoh_key=None, skip_loose=False, path=(), side="left"):
    """(path, side) of the first point where two documents that differ as data part
    ways; the path is in `side`'s coordinates (they differ from the other side's only
    below a synchronised sequence).  With skip_loose, differences that vanish when
    true == 1 are passed over; None when nothing else differs."""
    def deq(a, b):
        return spec.data_equal(a, b, arrays, aoh, aoh_key, scalars="loose" if skip_loose else "strict")

    kl, kr = spec.kind(l), spec.kind(r)
    if deq(l, r):
        return None
    if kl != kr or kl not in ("map", "seq"):
        return (path, side)
    if kl == "map":
        for k in l:
            if k not in r:
                return (path + (("key", spec._key_text(k)),), "left")
        for k in r:
            if k not in l:
                return (path + (("key", spec._key_text(k)),), "right")
        for k in l:
            d = first_difference(l[k], r[k], arrays, aoh, aoh_key, skip_loose, path + (("key", spec._key_text(k)),), side)
            if d is not None:
                return d
        return (path, side)
    if not l or not r:
        return (path, side)
    _, sync = _seq_mode(l, r, arrays, aoh)
    if not sync:
        if _whole_unit(l, r, aoh):
            for i in range(max(len(l), len(r))):
                if i >= len(l) or i >= len(r) or not deq(l[i], r[i]):
                    return (path + (("idx", i),), "left" if i < len(l) else "right")
            return (path, side)
        for i in range(max(len(l), len(r))):
            if i >= len(l):
                return (path + (("idx", i),), "right")
            if i >= len(r):
                return (path + (("idx", i),), "left")
            d = first_difference(l[i], r[i], arrays, aoh, aoh_key, skip_loose, path + (("idx", i),), side)
            if d is not None:
                return d
        return (path, side)
    # synchronised: the first element without an equal partner
    for own, other, own_side in ((l, r, "left"), (r, l, "right")):
        rest = list(other)
        for i, e in enumerate(own):
            for j, x in enumerate(rest):
                if deq(e, x):
                    del rest[j]
                    break
            else:
                if own_side != side and path:
                    # coordinates above this point were `side`'s; they are the same keys, keep them
                    pass
                p = _partner(i, own_side == "left", l, r, arrays, aoh, aoh_key)
                if p is not None and not spec.strict_equal(e, p):
                    a, b = (e, p) if own_side == "left" else (p, e)
                    d = first_difference(a, b, arrays, aoh, aoh_key, skip_loose, path + (("idx", i),), own_side)
                    if d is not None:
                        return d
                return (path + (("idx", i),), own_side)
    return (path, side)


def _eq_class(a, b):
    if spec.strict_equal(a, b):
        return "equal"
    if spec.loose_equal(a, b):
        return "loose"
    return False


def locus(P, lp, rp, arrays, aoh, aoh_key=None, side=None):
    """Shape class of the place a clause failed at.  Walk both documents along the
    failing path (given in `side`'s coordinates) for as long as they hold the same
    kind of container and the next segment on both sides; name every pair passed:
        seq:arr~seq:arr[A=position,null-element] > null~absent
    A sequence pair carries the mode governing it.  Below a synchronised pair the
    walk continues into the element's partner (an equal element, or the record of
    the same identity value); an element without partner is named alone
    (`scalar@left`).  A record compared as a whole unit (aoh=position) is not walked
    into.  Returns the chain of labels and whether the last pair is equal as data."""
    P = tuple(tuple(x) for x in (P or ()))
    cl, cr = lp, rp
    chain = []
    i = 0
    while True:
        desc, sync = _pair_desc(True, cl, True, cr, arrays, aoh)
        chain.append(desc)
        kl, kr = spec.kind(cl), spec.kind(cr)
        if i == len(P) or kl != kr or kl not in ("map", "seq", "set"):
            return chain, _eq_class(cl, cr)
        seg = P[i:i + 1]
        if kl == "seq" and sync:
            own_left = side != "right"
            f, e = spec.resolve(cl if own_left else cr, seg)
            if not f and side is None:
                own_left = False
                f, e = spec.resolve(cr, seg)
            if not f:
                chain.append("absent")
                return chain, False
            p = _partner(seg[0][1], own_left, cl, cr, arrays, aoh, aoh_key)
            if p is None:
                chain.append("%s@%s" % (_desc(True, e), "left" if own_left else "right"))
                return chain, False
            cl, cr = (e, p) if own_left else (p, e)
            i += 1
            continue
        whole = kl == "seq" and _whole_unit(cl, cr, aoh)
        fl, nl = spec.resolve(cl, seg)
        fr, nr = spec.resolve(cr, seg)
        if not (fl and fr):
            chain.append("%s~%s" % (_desc(fl, nl), _desc(fr, nr)))
            return chain, False
        cl, cr = nl, nr
        i += 1
        if whole:
            chain.append(_pair_desc(True, cl, True, cr, arrays, aoh)[0])
            return chain, _eq_class(cl, cr)


CLAUSE_GROUP = {
    "path-form": "path",
    "left-true": "truth", "right-true": "truth", "same-equal": "truth", "change-differ": "truth",
    "leaf-covered": "account", "left-once": "account", "right-once": "account",
    "differ-no-entry": "iff", "equal-but-entry": "iff",
}

_EMPTY = ("map0", "seq0", "set0")
_CONT = ("map", "set", "seq:aoh", "seq:arr", "seq:mix") + _EMPTY


def _strip(label):
    """'seq:arr~seq0[A=position]' -> ('seq:arr', 'seq0', 'A=position')"""
    flags = ""
    if "[" in label:
        label, _, flags = label.partition("[")
        flags = flags.rstrip("]")
    label = label.replace("(key-order)", "")
    if "@" in label:
        label = label.split("@")[0]
        return label, None, flags
    a, _, b = label.partition("~")
    return a, b, flags


def _named_cause(group, chain, fail, ctx):
    """Named root causes, by a predicate over the clause group and the shape class
    of the failing place.  First match wins; anything unmatched keeps its computed
    shape signature as the key, so a new failure mode shows up as a new key."""
    if fail.get("loose") or (ctx["loose_equal_docs"] and group == "iff") or ctx["child_equal"] == "loose":
        return "bool-int-conflated"
    if fail["clause"] in ctx["crosstalk_clauses"]:
        return "aoh-positional-mode-synchronised-when-arrays-value"
    child = chain[-1]
    ca, cb, _ = _strip(child)
    for lab in chain:
        a, b, _ = _strip(lab)
        if a and a.startswith("seq:") and b == "seq0":
            return "nonempty-seq-vs-empty-seq-no-entry"
    nullish = "null" in (ca, cb) or "absent" in (ca, cb)
    for lab in chain:
        if "null-element" in lab and (nullish or "A=value" in lab or any("O=" + m in lab for m in spec.AOH_SYNC)):
            return "null-element-in-sequence"
    if (ca in _EMPTY and cb == ca) or (cb is None and ca in _EMPTY):
        return "empty-container-pair-no-entry"
    if cb is not None:
        if (ca == "null" and cb in _CONT) or (cb == "null" and ca in _CONT):
            return "null-vs-container-no-entry-for-null"
        if ca != cb and "absent" not in (ca, cb) and (ca in _EMPTY or cb in _EMPTY):
            if ca.rstrip("0") == cb.rstrip("0"):
                return "nonempty-map-or-set-vs-empty-no-entry-for-the-empty-one"
            return "empty-container-in-type-clash-no-entry"
    if "(key-order)" in child:
        return "whole-record-compare-sensitive-to-key-order"
    if group == "account" and ctx["aoh"] == "position" and ctx["child_equal"] == "equal" and len(chain) > 1 \
            and "O=position" in chain[-2] and cb not in (None, "absent"):
        return "aoh-position-equal-elements-no-entry"
    return None


# --------------------------------------------------------------------------- one case
def shape(x):
    k = spec.kind(x)
    if k == "map":
        return ("m",) + tuple(shape(v) for v in x.values())
    if k == "seq":
        return ("q",) + tuple(shape(v) for v in x)
    if k == "set":
        return ("t", len(x))
    return "n" if k == "null" else "s"


class _CaptureLog:
    def __init__(self):
        self.lines = []

    def info(self, m, *a, **k):
        self.lines.append(str(m))

    def debug(self, *a, **k):
        pass
    verbose = warning = error = debug


def _repo_frame(tb):
    last = None
    for fs in traceback.extract_tb(tb):
        fn = os.path.abspath(fs.filename)
        if fn.startswith(_PKG + os.sep):
            last = "%s:%s" % (os.path.relpath(fn, _PKG), fs.name)
    return last or "outside-yamlpath"


def run_differ(cfg, L, R):
    """-> ("ok", entries, differ) | ("exc", exception, tb-frame-label, library?)"""
    Differ, _, YAMLPathException, _, _ = _lib()
    try:
        d = Differ(cfg, _LOG, L)
        d.compare_to(R)
        rep = list(d.get_report())
    except (Exception, SystemExit) as ex:          # noqa: the library failing IS the observation
        return ("exc", ex, _repo_frame(ex.__traceback__), isinstance(ex, YAMLPathException))
    ents = []
    for e in rep:
        ents.append((e.action.name, e.path.original, gen.plain(e.lhs), gen.plain(e._rhs)))
    return ("ok", ents, d)


def _jsonable(x):
    if isinstance(x, gen.SetT):
        return {"!!set": [_jsonable(m) for m in x]}
    if isinstance(x, dict):
        return [[_jsonable(k), _jsonable(v)] for k, v in x.items()] if any(not isinstance(k, str) for k in x) \
            else {k: _jsonable(v) for k, v in x.items()}
    if isinstance(x, (list, tuple)):
        return [_jsonable(v) for v in x]
    return x


def check_case(col, inp, L, R, lp, rp, inidir, status_check="fast"):
    """Run one (pair, mode, route) case and record it.  Returns the witness keys."""
    _, _, _, yaml_diff, PathSeparators = _lib()
    arrays = inp.get("arrays") or "position"
    aoh = inp.get("aoh") or "position"
    keys_cfg = inp.get("keys")
    aoh_key = None
    if keys_cfg:
        vals = set(keys_cfg.values())
        if len(vals) != 1:
            raise ValueError("harness: one identity field per case")
        aoh_key = vals.pop()

    if aoh in ("key", "deep") and (spec.has_mixed_list(lp) or spec.has_mixed_list(rp)):
        col.out_of_scope("key-or-deep-on-a-sequence-mixing-hashes-and-non-hashes")
        return []

    cfg = config_for(inp, inidir)
    res = run_differ(cfg, L, R)
    in_shape = (shape(lp), shape(rp), arrays, aoh, inp.get("via", "args"), bool(keys_cfg), bool(inp.get("same_object")))
    trivial = spec.kind(lp) in ("null", "scalar") and spec.kind(rp) in ("null", "scalar")
    keys = []

    if res[0] == "exc":
        _, ex, frame, is_lib = res
        key = "C06/%s/%s@%s" % ("library-exception" if is_lib else "exception", type(ex).__name__, frame)
        col.case(None if trivial else (in_shape, "exc", key))
        col.witness(key,
                    "compare_to/get_report raised %s instead of producing a report" % type(ex).__name__,
                    inp, observed="%s: %s" % (type(ex).__name__, str(ex)[:200]),
                    expected="a report (a list of DiffEntry) for any two loadable documents")
        return [key]

    _, ents, differ = res
    modes = {"arrays": arrays, "aoh": aoh, "aoh_key": aoh_key}
    fails = spec.diff_truth(ents, lp, rp, modes)
    positional = spec.positional(modes)

    # ---- verdicts that hinge on a reading the documentation leaves open
    if fails and (spec.has_mixed_list(lp) or spec.has_mixed_list(rp)):
        alt = spec.data_equal(lp, rp, arrays, aoh, aoh_key, mixed="array")
        if alt != spec.data_equal(lp, rp, arrays, aoh, aoh_key, mixed="aoh"):
            fails = [f for f in fails if CLAUSE_GROUP[f["clause"]] != "iff"]
            col.out_of_scope("iff-verdict-hinges-on-which-mode-governs-a-mixed-sequence")

    # ---- print_report: true exactly when some entry is not SAME; what it shows
    nonsame = sum(1 for e in ents if e[0] != "SAME")
    status_fail = None
    try:
        if status_check == "full" and not (_has_set(lp) or _has_set(rp)):
            # (DiffEntry.__str__ -> Parsers.jsonify_yaml_data rewrites !!set nodes of the caller's
            #  documents in place; harmless to yaml-diff, fatal to a harness that reuses documents)
            variants = ((False, False), (True, False), (False, True))
        else:
            variants = ()
        ns = SimpleNamespace(verbose=False, debug=False, quiet=True, same=False, onlysame=False,
                             pathsep=PathSeparators.DOT)
        got = yaml_diff.print_report(_LOG, ns, differ)
        if got is not (nonsame > 0):
            status_fail = "print_report returned %r with %d non-SAME of %d entries" % (got, nonsame, len(ents))
        for same, onlysame in variants:
            cap = _CaptureLog()
            ns = SimpleNamespace(verbose=False, debug=False, quiet=False, same=same, onlysame=onlysame,
                                 pathsep=PathSeparators.DOT)
            got = yaml_diff.print_report(cap, ns, differ)
            shown = sum(1 for x in cap.lines if x != "")
            want_shown = len(ents) if same else (len(ents) - nonsame if onlysame else nonsame)
            if got is not (nonsame > 0):
                status_fail = "print_report(same=%s, onlysame=%s) returned %r with %d non-SAME entries" % (same, onlysame, got, nonsame)
            elif shown != want_shown:
                status_fail = "print_report(same=%s, onlysame=%s) showed %d entries, expected %d" % (same, onlysame, shown, want_shown)
    except Exception as ex:                         # noqa
        frame = _repo_frame(ex.__traceback__)
        key = "C06/print-report-exception/%s@%s" % (type(ex).__name__, frame)
        col.witness(key, "yaml_diff.print_report raised %s on a report the Differ produced" % type(ex).__name__,
                    inp, observed="%s: %s" % (type(ex).__name__, str(ex)[:200]), expected="the report is printed")
        keys.append(key)
    if status_fail:
        key = "C06/print-report-status"
        col.witness(key, status_fail, inp, observed=status_fail,
                    expected="true (exit status 1) exactly when some entry is not SAME; --same shows all, --onlysame only SAME entries")
        keys.append(key)

    # ---- group the failed clauses by cause
    by_key = {}
    if fails:
        loose_docs = any(spec.data_equal(lp, rp, arrays, aoh, aoh_key, scalars="loose", mixed=m)
                         and not spec.data_equal(lp, rp, arrays, aoh, aoh_key, mixed=m) for m in ("aoh", "array"))
        idkey_issues = None
        crosstalk = frozenset()
        if arrays == "value" and aoh in ("position", "dpos"):
            # clauses that fail under the requested positional AoH mode but hold when the report is
            # read as a value-synchronised one: the array mode has taken the AoH mode over
            alt = set(f["clause"] for f in spec.diff_truth(ents, lp, rp, {"arrays": "value", "aoh": "value"}))
            crosstalk = frozenset(f["clause"] for f in fails) - alt
        for f in fails:
            group = CLAUSE_GROUP[f["clause"]]
            if group == "path":
                by_key.setdefault("C06/unparseable-entry-path", []).append(f)
                continue
            # a clause that fails under the value-synchronised reading as well is located under that
            # reading (it is what was compared); labels only, the verdict stands as computed above
            laoh = "value" if (arrays == "value" and aoh in ("position", "dpos") and f["clause"] not in crosstalk) else aoh
            # where to look: the failing path; below a synchronised sequence an entry's index may be
            # either side's, and index-free accounting cannot tell like leaves apart: try the
            # alternatives until one matches a named cause
            side = f.get("side")
            if f["clause"] == "differ-no-entry":
                d = first_difference(lp, rp, arrays, laoh, aoh_key, skip_loose=True) \
                    or first_difference(lp, rp, arrays, laoh, aoh_key)
                if d is None:
                    raise RuntimeError("harness: documents differ but no difference found: %r" % (inp,))
                tries = [d]
            else:
                paths = [f["path"]] + [c for c in f.get("candidates", ()) if c != f["path"]][:8]
                if side is None and f.get("entry") is not None:
                    act = ents[f["entry"]][0]
                    sides = {"ADD": ("right", "left"), "DELETE": ("left", "right")}.get(act, ("left", "right"))
                elif side is None:
                    sides = ("left", "right")
                else:
                    sides = (side,) if positional else (side, "right" if side == "left" else "left")
                tries = [(P, sd) for P in paths for sd in sides]
            name = chain = None
            for (P, sd) in tries:
                ch, child_equal = locus(P, lp, rp, arrays, laoh, aoh_key, sd)
                ctx = {"loose_equal_docs": loose_docs, "arrays": arrays, "aoh": laoh, "child_equal": child_equal,
                       "crosstalk_clauses": crosstalk}
                nm = _named_cause(group, ch, f, ctx)
                if chain is None:
                    chain = ch
                if nm is not None:
                    name, chain = nm, ch
                    break
            # global root causes first: a local symptom name (null vs container, empty pair, ...) says nothing
            # when the verdict hinges on a duplicated identity value or on order INSIDE an element compared whole
            if name != "bool-int-conflated" and group == "iff" and f["clause"] == "equal-but-entry" and not f.get("identical"):
                if aoh in ("key", "deep"):
                    if idkey_issues is None:
                        idkey_issues = spec.identity_key_issues(lp, rp, aoh_key)
                    if idkey_issues & {"uninferable", "ambiguous"}:
                        # no identity field can be inferred (a first record is {}), or the two documents suggest different
                        # ones: what "matching by key" means here is not defined by the documentation
                        col.out_of_scope("key-sync-identity-field-%s" % "+".join(sorted(idkey_issues & {"uninferable", "ambiguous"})))
                        continue
                    if "bool-int" in idkey_issues:
                        name = "bool-int-conflated"           # identity values that differ only as true / 1
                    elif "duplicate" in idkey_issues:
                        name = "key-sync-identity-value-duplicated"
                if name not in ("key-sync-identity-value-duplicated", "bool-int-conflated") and (
                        not spec.data_equal(lp, rp, arrays, laoh, aoh_key, whole_unit="plain") or _nested_reorder(lp, rp, arrays, laoh)):
                    name = "reordered-sequence-nested-in-synchronised-element"
            if name is None and aoh in ("key", "deep") and group in ("iff",):
                if idkey_issues is None:
                    idkey_issues = spec.identity_key_issues(lp, rp, aoh_key)
                if "bool-int" in idkey_issues:
                    name = "bool-int-conflated"
                elif idkey_issues:
                    what = "+".join(sorted(idkey_issues))
                    if f["clause"] == "equal-but-entry" and f.get("identical"):
                        name = "key-sync-reflexivity-record-without-identity-field" if "missing" in idkey_issues \
                            else "key-sync-reflexivity-identity-value-duplicated"
                    elif f["clause"] == "equal-but-entry" and idkey_issues == {"missing"} and \
                            spec.data_equal(lp, rp, "position", laoh, aoh_key, whole_unit="plain") and \
                            spec.data_equal(lp, rp, arrays, laoh, aoh_key, whole_unit="plain") and \
                            all(isinstance(v, dict) for e in ents if e[0] != "SAME" for v in e[2:4] if v is not None):
                        # ... and every reported difference is about a whole record of a key-synchronised list
                        # (the keyless records have plainly equal twins: nothing hinges on order INSIDE them)
                        # data-equal documents (order disregarded) whose only peculiarity is a record without the
                        # identity field: such a record pairs with its identical twin, so no difference may show
                        name = "key-sync-equal-data-record-without-identity-field"
                    else:
                        col.out_of_scope("key-sync-verdict-with-identity-field-%s" % what)
                        continue
            if name is None and group == "iff" and f["clause"] == "equal-but-entry":
                # does the verdict hinge on order *inside* an element that is compared as a whole unit?
                if not spec.data_equal(lp, rp, arrays, laoh, aoh_key, whole_unit="plain") or \
                        _nested_reorder(lp, rp, arrays, laoh):
                    name = "reordered-sequence-nested-in-synchronised-element"
            key = "C06/%s" % name if name else "C06/%s/%s" % (group, ">".join(chain[-2:]))
            by_key.setdefault(key, []).append(f)

    for key, fs in by_key.items():
        clauses = sorted(set(f["clause"] for f in fs))
        col.witness(key,
                    "clause(s) %s fail: %s" % (", ".join(clauses), fs[0]["detail"]),
                    inp,
                    observed={"entries": _jsonable([list(e) for e in ents[:12]]),
                              "failed": [{"clause": f["clause"], "path": spec.path_text(f["path"]) if f["path"] is not None else None,
                                          "detail": f["detail"]} for f in fs[:6]]},
                    expected="C06 clauses %s hold for lhs=%s rhs=%s under arrays=%s aoh=%s"
                             % (", ".join(clauses), inp["lhs"], inp["rhs"], arrays, aoh))
        keys.append(key)

    outcome = (tuple(sorted(set(e[0] for e in ents))), tuple(sorted(keys)))
    sample = None
    if not trivial and len(col.samples) < col.max_samples and (col.evaluations % 97 == 0):
        sample = {"input": inp, "entries": _jsonable([list(e) for e in ents[:8]]), "witness_keys": keys}
    col.case(None if trivial else (in_shape, outcome), sample)
    return keys


def _has_set(x):
    k = spec.kind(x)
    if k == "set":
        return True
    if k == "map":
        return any(_has_set(v) for v in x.values())
    if k == "seq":
        return any(_has_set(v) for v in x)
    return False


def _nested_reorder(lp, rp, arrays, aoh):
    """Equal when order is disregarded everywhere the modes say, different when a
    synchronised element must match its partner by plain (positional) equality."""
    if arrays != "value" and aoh not in spec.AOH_SYNC:
        return False

    def eq(a, b, top):
        ka, kb = spec.kind(a), spec.kind(b)
        if ka != kb:
            return False
        if ka == "map":
            return set(a) == set(b) and all(eq(a[k], b[k], top) for k in a)
        if ka == "seq":
            if len(a) != len(b):
                return False
            if not a:
                return True
            _, sync = _seq_mode(a, b, arrays, aoh)
            if sync:
                return spec.multiset(a, b, spec.strict_equal)      # partners found by plain equality
            return all(eq(x, y, top) for x, y in zip(a, b))
        return spec.strict_equal(a, b)
    return not eq(lp, rp, True)


def check_pair(col, ly, ry, L, R, lp, rp, inidir, variants, same_object=False):
    """All requested (arrays, aoh, via, keys) variants of one document pair, then the purity check."""
    for (arrays, aoh, via, keys) in variants:
        inp = {"lhs": ly, "rhs": ry, "arrays": arrays, "aoh": aoh, "via": via}
        if keys:
            inp["keys"] = keys
        if same_object:
            inp["same_object"] = True
        check_case(col, inp, L, R, lp, rp, inidir,
                   status_check="full" if (via != "args" or (arrays, aoh) == ("position", "position")) else "fast")
    if gen.plain(L) != lp or (R is not L and gen.plain(R) != rp):
        col.witness("C06/input-document-mutated", "compare_to changed one of the documents it was given",
                    {"lhs": ly, "rhs": ry, "arrays": variants[-1][0], "aoh": variants[-1][1], "via": variants[-1][2]},
                    observed={"lhs_after": gen.to_yaml(gen.plain(L)), "rhs_after": gen.to_yaml(gen.plain(R))},
                    expected="both documents unchanged")
        return True
    return False


ARGS_VARIANTS = [(a, o, "args", None) for (a, o) in MODES]
DEFAULT_VARIANT = [(None, None, "args", None)]
INI_VARIANTS = [(a, o, "ini", None) for (a, o) in MODES] + [(a, o, "args+ini", None) for (a, o) in MODES]


# --------------------------------------------------------------------------- generators
def aoh_records(values, fields=("a", "b")):
    if values == "small":
        return [{}, {"a": 1}, {"a": 2}, {"a": None}, {"b": 1}, {"a": 1, "b": 1}, {"a": 1, "b": 2}, {"b": 1, "a": 1},
                {"a": 2, "b": None}]
    recs = [{}]
    for f in fields:
        for v in values:
            recs.append({f: v})
    for (f, g) in itertools.permutations(fields, 2):
        for v in values:
            for w in values:
                recs.append({f: v, g: w})
    return recs


def aoh_lists(values, max_len, fields=("a", "b")):
    recs = aoh_records(values, fields)
    out = [[]]
    for n in range(1, max_len + 1):
        for combo in itertools.product(recs, repeat=n):
            out.append([dict(r) for r in combo])
    return out


REP = (None, 2, "z", [], {}, [1], {"a": 2})
INS = (None, 1, "z", [], {}, {"a": 1}, [None])


def _subpaths(t, p=()):
    yield p, t
    if isinstance(t, dict):
        for k, v in t.items():
            yield from _subpaths(v, p + (k,))
    elif isinstance(t, list):
        for i, v in enumerate(t):
            yield from _subpaths(v, p + (i,))


def _put(t, p, new):
    if not p:
        return new
    if isinstance(t, dict):
        return {k: (_put(v, p[1:], new) if k == p[0] else v) for k, v in t.items()}
    return [(_put(v, p[1:], new) if i == p[0] else v) for i, v in enumerate(t)]


def single_edits(t):
    """Every single insert / delete / replace / reorder edit of a template."""
    for p, node in _subpaths(t):
        for rep in REP:
            if not spec.strict_equal(rep, node):
                yield "replace", _put(t, p, rep)
        if isinstance(node, list):
            for i in range(len(node) + 1):
                for ins in INS:
                    yield "insert", _put(t, p, node[:i] + [ins] + node[i:])
            for i in range(len(node)):
                yield "delete", _put(t, p, node[:i] + node[i + 1:])
            for i in range(len(node) - 1):
                if not spec.strict_equal(node[i], node[i + 1]):
                    yield "reorder", _put(t, p, node[:i] + [node[i + 1], node[i]] + node[i + 2:])
            if len(node) > 2:
                yield "reorder", _put(t, p, node[::-1])
                yield "reorder", _put(t, p, node[1:] + node[:1])
        elif isinstance(node, dict):
            for ins in INS:
                if "n" not in node:
                    new = dict(node)
                    new["n"] = ins
                    yield "insert", _put(t, p, new)
                    front = {"n": ins}
                    front.update(node)
                    if node:
                        yield "insert", _put(t, p, front)
            for k in node:
                yield "delete", _put(t, p, {kk: v for kk, v in node.items() if kk != k})
            if len(node) > 1:
                yield "reorder", _put(t, p, dict(reversed(list(node.items()))))
        elif isinstance(node, gen.SetT):
            if "z" not in node:
                yield "insert", _put(t, p, gen.SetT(tuple(node) + ("z",)))
            for m in node:
                yield "delete", _put(t, p, gen.SetT(tuple(x for x in node if x != m)))
            if len(node) > 1:
                yield "reorder", _put(t, p, gen.SetT(tuple(node)[::-1]))


def random_aoh_doc(rng):
    fields = ("id", "a", "b")
    vals = (None, 1, 2, "x", True, [1, 2], [2, 1], [], {}, {"c": 1}, {"c": [1, None]})

    def rec():
        n = rng.choice((0, 1, 2, 2, 3))
        fs = list(fields[:n]) if rng.random() < 0.6 else rng.sample(fields, n)
        return {f: (rng.randint(1, 3) if f == "id" and rng.random() < 0.8 else _fresh(rng.choice(vals))) for f in fs}
    lst = [rec() for _ in range(rng.choice((0, 1, 2, 2, 3, 3, 4)))]
    if rng.random() < 0.15 and lst:
        lst.insert(rng.randrange(len(lst) + 1), rng.choice((None, 1, [])))      # type clash inside the list
    w = rng.random()
    if w < 0.4:
        return lst
    if w < 0.8:
        return {"k": lst, "o": rng.choice(vals[:5])}
    return [lst, rng.choice(vals[:5])]


def _fresh(x):
    return json.loads(json.dumps(x))


def random_edit(rng, t):
    es = []
    for n, e in enumerate(single_edits(t)):
        if n > 400:
            break
        es.append(e)
    if not es:
        return t
    kinds = sorted(set(k for k, _ in es))
    k = rng.choice(kinds)
    return rng.choice([e for kk, e in es if kk == k])


# --------------------------------------------------------------------------- workers
_POOLS = {}


def _load_pool(name, templates):
    pool = []
    seen = set()
    for t in templates:
        y = gen.to_yaml(t)
        if y in seen:
            continue
        seen.add(y)
        L = gen.load(y)
        R = gen.load(y)
        p = gen.plain(L)
        pool.append((y, L, R, p))
    _POOLS[name] = pool
    return len(pool)


def _w_allpairs(chunk, name, inidir, variants, ini_stride):
    _lib()
    col = harness.Collector()
    pool = _POOLS[name]
    for i in chunk:
        ly, L, _, lp = pool[i]
        for j, (ry, _, R, rp) in enumerate(pool):
            vs = variants
            if ini_stride and (i * 31 + j) % ini_stride == 0:
                vs = variants + INI_VARIANTS + DEFAULT_VARIANT
            if check_pair(col, ly, ry, L, R, lp, rp, inidir, vs):
                pool[i] = (ly, gen.load(ly), gen.load(ly), lp)
                pool[j] = (ry, gen.load(ry), gen.load(ry), rp)
                L = pool[i][1]
        # the very same object on both sides
        if check_pair(col, ly, ly, L, L, lp, lp, inidir, variants, same_object=True):
            pool[i] = (ly, gen.load(ly), gen.load(ly), lp)
    return col.result(internal=True)


def _w_edits(chunk, inidir, variants, stride):
    _lib()
    col = harness.Collector()
    for (n, t) in chunk:
        by = gen.to_yaml(t)
        B1 = gen.load(by)
        B2 = gen.load(by)
        bp = gen.plain(B1)
        seen = set()
        for m, (_, e) in enumerate(single_edits(t)):
            if stride > 1 and (n + m) % stride:
                continue
            ey = gen.to_yaml(e)
            if ey in seen:
                continue
            seen.add(ey)
            E1 = gen.load(ey)
            ep = gen.plain(E1)
            check_pair(col, by, ey, B1, E1, bp, ep, inidir, variants)
            check_pair(col, ey, by, E1, B2, ep, bp, inidir, variants)
    return col.result(internal=True)


def _w_random(chunk, inidir, variants):
    _lib()
    col = harness.Collector()
    for s in chunk:
        rng = random.Random(s)
        w = rng.random()
        base = random_aoh_doc(rng) if w < 0.5 else gen.random_tree(rng, max_nodes=12, max_depth=4)
        u = rng.random()
        if u < 0.12:
            other = base
        elif u < 0.27:
            other = random_aoh_doc(rng) if rng.random() < 0.5 else gen.random_tree(rng, max_nodes=12, max_depth=4)
        else:
            other = base
            for _ in range(rng.randint(1, 4)):
                other = random_edit(rng, other)
        if rng.random() < 0.5:
            base, other = other, base
        ly, ry = gen.to_yaml(base), gen.to_yaml(other)
        L, R = gen.load(ly), gen.load(ry)
        lp, rp = gen.plain(L), gen.plain(R)
        vs = list(variants)
        if s % 5 == 0:
            vs += INI_VARIANTS
        # an identity field named in [keys] for an AoH kept under key "k"
        if isinstance(rp, dict) and isinstance(rp.get("k"), list):
            for o in ("key", "deep"):
                for f in ("id", "b"):
                    vs.append((rng.choice(ARRAYS), o, "ini", {"k": f}))
        check_pair(col, ly, ry, L, R, lp, rp, inidir, vs)
    return col.result(internal=True)


def _w_keys(chunk, name, inidir):
    """AoH pairs under a mapping key with the identity field named by [keys]."""
    _lib()
    col = harness.Collector()
    pool = _POOLS[name]
    for i in chunk:
        ly, L, _, lp = pool[i]
        for j, (ry, _, R, rp) in enumerate(pool):
            vs = [(a, o, "ini", {"k": f}) for a in ("position",) for o in ("key", "deep") for f in ("a", "b")]
            if check_pair(col, ly, ry, L, R, lp, rp, inidir, vs):
                pool[i] = (ly, gen.load(ly), gen.load(ly), lp)
                pool[j] = (ry, gen.load(ry), gen.load(ry), rp)
                L = pool[i][1]
    return col.result(internal=True)


# --------------------------------------------------------------------------- exit status of the command, in process
def exit_status_cases(col, inidir, pairs):
    _, _, _, yaml_diff, _ = _lib()
    for (ly, ry, extra) in pairs:
        lf = os.path.join(inidir, "lhs.yaml")
        rf = os.path.join(inidir, "rhs.yaml")
        for fn, y in ((lf, ly), (rf, ry)):
            with open(fn, "w") as fh:
                fh.write(y + "\n")
        arrays, aoh = extra
        inp = {"lhs": ly, "rhs": ry, "arrays": arrays, "aoh": aoh, "via": "main"}
        argv = ["yaml-diff", "--same", "-A", arrays, "-O", aoh, lf, rf]
        code, err = _run_main(yaml_diff, argv)
        L, R = gen.load(ly), gen.load(ry)
        res = run_differ(config_for({"arrays": arrays, "aoh": aoh, "via": "args"}, inidir), L, R)
        col.case(("main", shape(gen.plain(L)), shape(gen.plain(R)), arrays, aoh, code))
        if res[0] != "ok":
            continue                                     # the exception is reported by the library-level cases
        want = 1 if any(e[0] != "SAME" for e in res[1]) else 0
        if code != want:
            col.witness("C06/exit-status", "yaml-diff exited %r, its own report has %s non-SAME entries" % (code, "some" if want else "no"),
                        inp, observed={"exit": code, "stderr": err[-300:]}, expected="exit %d" % want)


# --------------------------------------------------------------------------- per-path [rules]: scope of one rule
RULE_SCOPE_CASES = [
    # (lhs, rhs, rule path, rule mode, key governed by the rule, sibling key that no rule names)
    ("a: {c: [1, 2]}\nb: {c: [1, 2]}\n", "a: {c: [2, 1]}\nb: {c: [2, 1]}\n", "/a/c", "value", "a", "b"),
    ("x: {p: [1, 2], q: 0}\ny: {p: [1, 2], q: 0}\n", "x: {p: [2, 1], q: 0}\ny: {p: [2, 1], q: 0}\n", "/y/p", "value", "y", "x"),
    ("a: {c: [{id: 1}, {id: 2}]}\nb: {c: [{id: 1}, {id: 2}]}\n", "a: {c: [{id: 2}, {id: 1}]}\nb: {c: [{id: 2}, {id: 1}]}\n", "/a/c", "key", "a", "b"),
]


def rule_scope_cases(col, inidir):
    """A [rules] entry selects the mode of the node it NAMES: the reordered sequence under the named key shows no
    difference (synchronised mode), the equal-looking sequence under the sibling key is still compared by position."""
    _, DifferConfig, _, _, _ = _lib()
    for (ly, ry, rpath, mode, named, sibling) in RULE_SCOPE_CASES:
        ini = os.path.join(inidir, "c06_rule_%s.ini" % harness.stable_hash([ly, rpath, mode]))
        with open(ini, "w") as fh:
            fh.write("[rules]\n%s = %s\n" % (rpath, mode))
        ns = SimpleNamespace(arrays=None, aoh=None, config=ini)
        inp = {"lhs": ly, "rhs": ry, "rules": {rpath: mode}, "via": "ini-rules"}
        res = run_differ(DifferConfig(_LOG, ns), gen.load(ly), gen.load(ry))
        col.case(("rule-scope", rpath, mode, res[0]))
        if res[0] != "ok":
            col.witness("C06/rule-scope/raised-%s" % type(res[1]).__name__, "a per-path rule makes the comparison fail", inp,
                        observed=repr(res[1]), expected="a report")
            continue
        ents = res[1]
        under = lambda k: [e for e in ents if e[1] == k or e[1].startswith(k + ".") or e[1].startswith(k + "[")]
        if any(e[0] != "SAME" for e in under(named)):
            col.witness("C06/rule-scope/rule-not-applied-at-the-path-it-names", "the named sequence is still compared by position", inp,
                        observed=[list(e[:2]) for e in under(named)], expected="no difference under %s" % named)
        if not any(e[0] != "SAME" for e in under(sibling)):
            col.witness("C06/rule-scope/rule-governs-a-path-it-does-not-name", "the sibling sequence is reordered and no rule names it, "
                        "yet no difference is reported", inp, observed=[list(e[:2]) for e in under(sibling)],
                        expected="CHANGE entries under %s" % sibling)


# --------------------------------------------------------------------------- custom-tagged scalars (raw YAML)
TAGGED_CASES = [
    # (lhs, rhs, data-equal?)
    ("a: !foo bar\n", "a: !foo bar\n", True),
    ("!foo bar\n", "!foo bar\n", True),
    ("[!t 1, x, !t 1]\n", "[!t 1, x, !t 1]\n", True),
    ("a: {b: !v 1.5, c: [!v 1.5]}\n", "a: {b: !v 1.5, c: [!v 1.5]}\n", True),
    ("a: !foo bar\n", "a: !foo qux\n", False),
    ("a: !foo bar\n", "a: !baz bar\n", False),
    ("a: !foo bar\n", "a: bar\n", False),
    ("[!t 1, x]\n", "[!t 2, x]\n", False),
    # one datum in two YAML spellings (plain / quoted text, decimal / hexadecimal): the same data, also when a
    # value-synchronised sequence has to pair the two spellings
    ("hosts: [alpha, \"beta\", gamma]\n", "hosts: [alpha, beta, 'gamma']\n", True),
    ("hosts: [alpha, \"beta\", gamma]\n", "hosts: ['gamma', alpha, beta]\n", "value-only"),
    ("ports: [16, 0x20, 3]\n", "ports: [3, 0x10, 32]\n", "value-only"),
    ("a: \"x\"\nb: 0x10\n", "a: x\nb: 16\n", True),
]


def tagged_scalar_cases(col, inidir):
    """Two separately loaded documents with custom-tagged scalars: no difference exactly when tag and value agree."""
    for (ly, ry, equal) in TAGGED_CASES:
        for arrays, aoh in (("position", "position"), ("value", "value")):
            if equal == "value-only" and arrays != "value":
                continue
            inp = {"lhs": ly, "rhs": ry, "arrays": arrays, "aoh": aoh, "via": "args", "tagged": True}
            res = run_differ(config_for(inp, inidir), gen.load(ly), gen.load(ry))
            col.case(("tagged", ly, ry, arrays, res[0]))
            if res[0] != "ok":
                col.witness("C06/tagged-scalar/raised-%s" % type(res[1]).__name__, "comparing documents with tagged scalars fails", inp,
                            observed=repr(res[1]), expected="a report")
                continue
            differs = any(e[0] != "SAME" for e in res[1])
            if equal and differs:
                col.witness("C06/%s/identical-documents-show-a-difference" % ("tagged-scalar" if "!" in ly else "one-datum-two-spellings"),
                            "documents holding the same data (custom-tagged scalars / one datum in two YAML spellings) are reported as different", inp,
                            observed=[list(e[:2]) for e in res[1] if e[0] != "SAME"], expected="no non-SAME entry")
            if not equal and not differs:
                col.witness("C06/tagged-scalar/different-tag-or-value-shows-no-difference",
                            "tagged scalars that differ in tag or value are reported as the same", inp,
                            observed=[list(e[:2]) for e in res[1]], expected="a non-SAME entry")


# --------------------------------------------------------------------------- one Differ, several comparisons
HISTORY_DOCS = ["a: 1\nb: [1, 2]\n", "a: 1\nb: [1, 2]\n", "a: 2\nb: [2, 1]\n", "a: 1\nb: [1, 2, 3]\nc: x\n", "[1]\n"]


def differ_history_cases(col, inidir):
    """compare_to may be called again on the same Differ (the left document stays): every report is the report of the
    LAST comparison -- what a fresh Differ gives for the same pair -- whatever was compared and read before."""
    Differ, _, _, _, _ = _lib()
    for arrays, aoh in (("position", "position"), ("value", "value")):
        cfg = config_for({"arrays": arrays, "aoh": aoh, "via": "args"}, inidir)
        for li, ly in enumerate(HISTORY_DOCS[:2]):
            for order in ((1, 2), (2, 1), (2, 3, 1), (4, 1), (3, 3, 2)):
                inp = {"check": "differ-history", "lhs": ly, "rhs_sequence": [HISTORY_DOCS[i] for i in order], "arrays": arrays, "aoh": aoh}
                try:
                    d = Differ(cfg, _LOG, gen.load(ly))
                    got = None
                    for i in order:
                        d.compare_to(gen.load(HISTORY_DOCS[i]))
                        got = [(e.action.name, e.path.original, gen.plain(e.lhs), gen.plain(e._rhs)) for e in d.get_report()]
                except Exception as ex:      # noqa
                    col.case(("history", arrays, order, "exc"))
                    col.witness("C06/differ-history/raised-%s" % type(ex).__name__, "a second comparison on the same Differ fails", inp,
                                observed=repr(ex), expected="a report")
                    continue
                want = run_differ(cfg, gen.load(ly), gen.load(HISTORY_DOCS[order[-1]]))
                col.case(("history", arrays, order, len(got)))
                if want[0] == "ok" and got != want[1]:
                    col.witness("C06/differ-history/report-is-not-that-of-the-last-comparison",
                                "after several compare_to calls the report differs from a fresh Differ's report for the last pair", inp,
                                observed=_jsonable(got)[:6], expected=_jsonable(want[1])[:6])


def _run_main(yaml_diff, argv):
    old = sys.argv
    out, err = io.StringIO(), io.StringIO()
    code = None
    try:
        sys.argv = argv
        with contextlib.redirect_stdout(out), contextlib.redirect_stderr(err):
            try:
                yaml_diff.main()
            except SystemExit as ex:
                code = ex.code
            except Exception as ex:                      # noqa
                code = "raised %s" % type(ex).__name__
    finally:
        sys.argv = old
    return code, err.getvalue()


# --------------------------------------------------------------------------- run / replay
def run(tier="quick", seed=0, jobs=None):
    _lib()
    jobs = jobs or os.cpu_count() or 4
    col = harness.Collector()
    inidir = tempfile.mkdtemp(prefix="c06-rtc-")
    import time
    phase = {}
    t0 = time.time()

    def lap(name):
        nonlocal t0
        phase[name] = round(time.time() - t0, 1)
        t0 = time.time()
    try:
        if tier == "quick":
            b = dict(A_nodes=3, A_depth=2, A_keys=["a", "b"], A_scalars="None,True,1,'1'", A2=None,
                     C_values="small", C_maxlen=2, C_fields=["a", "b"],
                     B_nodes=4, B_depth=3, B_keys=["a", 1], B_scalars="None,1", B_stride=7,
                     D_random=1200, K_maxlen=1)
            a_scal, c_vals, b_scal = (None, True, 1, "1"), "small", (None, 1)
            ini_stride = 23
        elif tier == "thorough":
            b = dict(A_nodes=4, A_depth=3, A_keys=["a", "b"], A_scalars="None,True,1",
                     A2="plus trees(<=3 nodes, depth<=2) over scalars None,True,1,'1','a'",
                     C_values="1,2,None", C_maxlen=2, C_fields=["a", "b"],
                     B_nodes=5, B_depth=3, B_keys=["a", 1], B_scalars="None,1", B_stride=2,
                     D_random=30000, K_maxlen=2)
            a_scal, c_vals, b_scal = (None, True, 1), (1, 2, None), (None, 1)
            ini_stride = 101
        else:
            raise ValueError("tier must be quick or thorough")

        # A: all ordered pairs of small documents
        a_t = gen.trees(b["A_nodes"], b["A_depth"], keys=tuple(b["A_keys"]), scalars=a_scal)
        if b["A2"]:
            a_t = a_t + gen.trees(3, 2, keys=tuple(b["A_keys"]), scalars=(None, True, 1, "1", "a"))
        nA = _load_pool("A", a_t)
        b["A_documents"] = nA
        for r in harness.pmap_chunks(_w_allpairs, range(nA), jobs, chunk=max(1, nA // (jobs * 6)),
                                     extra=("A", inidir, ARGS_VARIANTS, ini_stride)):
            col.merge(r)

        lap("A")
        # C: all ordered pairs of small arrays-of-hashes (root sequences)
        c_t = aoh_lists(c_vals, b["C_maxlen"], tuple(b["C_fields"]))
        # plus a few with three records and with non-hash members on one side
        c_t += [[{"a": 1, "b": 1}, {"a": 2, "b": 1}, {"a": 3, "b": None}],
                [{"a": 3, "b": None}, {"a": 1, "b": 1}, {"a": 2, "b": 1}],
                [{"a": 1, "b": 1}, {"a": 1, "b": 2}, {"a": 1, "b": 1}],
                # a record without the identity field at each position among keyed records
                [{"a": 1, "b": 1}, {"a": 2, "b": 1}, {"c": 0}], [{"a": 1, "b": 1}, {"c": 0}, {"a": 2, "b": 1}],
                [{"a": 2, "b": 1}, {"c": 0}, {"a": 1, "b": 1}],
                [1, 2], [None], [[1]], [{"a": [1, 2]}, {"a": [2, 1]}], [{"a": [2, 1]}, {"a": [1, 2]}],
                [{"a": {"b": [1, 2]}}], [{"a": {"b": [2, 1]}}]]
        nC = _load_pool("C", c_t)
        b["C_documents"] = nC
        for r in harness.pmap_chunks(_w_allpairs, range(nC), jobs, chunk=max(1, nC // (jobs * 6)),
                                     extra=("C", inidir, ARGS_VARIANTS, ini_stride)):
            col.merge(r)

        lap("C")
        # K: the same kind of lists under a mapping key, identity field named in [keys]
        k_t = [{"k": l} for l in aoh_lists((1, 2), b["K_maxlen"], ("a", "b"))]
        nK = _load_pool("K", k_t)
        b["K_documents"] = nK
        for r in harness.pmap_chunks(_w_keys, range(nK), jobs, chunk=max(1, nK // (jobs * 4)), extra=("K", inidir)):
            col.merge(r)

        lap("K")
        # B: every single edit of larger documents
        b_t = gen.trees(b["B_nodes"], b["B_depth"], keys=tuple(b["B_keys"]), scalars=b_scal)
        b_t = [t for t in b_t if gen.size(t) == b["B_nodes"]]
        b_t += [[{"a": 1, "b": [1, 2]}, {"a": 2, "b": None}], {"k": [{"a": 1}, {"a": 2}, {"a": 3}], "s": gen.SetT(("a", "b"))},
                [[1, None, 2], [], {}], {"a": {"b": {"a": [1, {"a": None}]}}}]
        b["B_base_documents"] = len(b_t)
        items = list(enumerate(b_t))
        for r in harness.pmap_chunks(_w_edits, items, jobs, chunk=max(1, len(items) // (jobs * 6)),
                                     extra=(inidir, ARGS_VARIANTS, b["B_stride"])):
            col.merge(r)

        lap("B")
        # D: seeded random pairs
        seeds = [seed * 1000003 + i for i in range(b["D_random"])]
        for r in harness.pmap_chunks(_w_random, seeds, jobs, chunk=max(1, len(seeds) // (jobs * 6)),
                                     extra=(inidir, ARGS_VARIANTS)):
            col.merge(r)

        lap("D")
        # E: exit status of the command itself
        pairs = []
        rng = random.Random(seed)
        docs = [1, None, [], {}, [1, 2], [2, 1], {"a": 1}, {"a": 2}, [{"a": 1}], [{"a": 1}, {"a": 2}], [{"a": 2}, {"a": 1}],
                ["a", None], {"a": None}, {"a": []}, [True], gen.SetT(("a",))]
        for _ in range(60):
            pairs.append((gen.to_yaml(rng.choice(docs)), gen.to_yaml(rng.choice(docs)), rng.choice(MODES)))
        for d in docs:
            pairs.append((gen.to_yaml(d), gen.to_yaml(d), rng.choice(MODES)))
        b["E_main_runs"] = len(pairs)
        exit_status_cases(col, inidir, pairs)
        rule_scope_cases(col, inidir)
        tagged_scalar_cases(col, inidir)
        differ_history_cases(col, inidir)
        lap("E")
        b["phase_wall_s"] = phase
    finally:
        shutil.rmtree(inidir, ignore_errors=True)
        _POOLS.clear()
        _CFG_CACHE.clear()

    rule = ("C06 clauses (spec.diff.diff_truth) on the real Differ report: positional comparison -- every entry true of "
            "both documents, SAME equal, CHANGE different, every leaf covered; every mode -- non-SAME entry iff the "
            "documents differ as data (order disregarded where the mode synchronises), reflexivity, each left/right "
            "leaf accounted exactly once; no exception escapes compare_to/get_report; print_report/exit status true "
            "iff some entry is not SAME.  Space: A all ordered pairs of trees(<=%d nodes, depth<=%d) [%d docs]; C all "
            "ordered pairs of AoH lists (<=%d records over fields a,b, values %s) [%d docs]; K those under a key with "
            "[keys] identity field; B all single edits (stride %d) of %d base documents of %d nodes, both directions; "
            "D %d seeded random pairs (1-4 edits / identical / unrelated); each pair x 2 array modes x 5 AoH modes, "
            "a fraction also via INI [defaults] and command-line-over-INI; E %d in-process yaml-diff runs."
            % (b["A_nodes"], b["A_depth"], b["A_documents"], b["C_maxlen"], b["C_values"], b["C_documents"],
               b["B_stride"], b["B_base_documents"], b["B_nodes"], b["D_random"], b["E_main_runs"]))
    return col.result(rule=rule, exhaustive=True, bounds=b, tier=tier, seed=seed)


def replay(inp):
    """Re-run ONE case on the current tree.  The (first) witness dict if it still fails, else None."""
    _lib()
    col = harness.Collector()
    inidir = tempfile.mkdtemp(prefix="c06-replay-")
    try:
        if inp.get("via") == "main":
            exit_status_cases(col, inidir, [(inp["lhs"], inp["rhs"], (inp["arrays"], inp["aoh"]))])
        elif inp.get("via") == "ini-rules":
            rule_scope_cases(col, inidir)
        elif inp.get("tagged"):
            tagged_scalar_cases(col, inidir)
        elif inp.get("check") == "differ-history":
            differ_history_cases(col, inidir)
        else:
            L = gen.load(inp["lhs"])
            R = L if inp.get("same_object") else gen.load(inp["rhs"])
            lp, rp = gen.plain(L), gen.plain(R)
            check_case(col, inp, L, R, lp, rp, inidir, status_check="full")
            if gen.plain(L) != lp or gen.plain(R) != rp:
                col.witness("C06/input-document-mutated", "compare_to changed one of the documents it was given", inp,
                            observed={"lhs_after": gen.to_yaml(gen.plain(L)), "rhs_after": gen.to_yaml(gen.plain(R))},
                            expected="both documents unchanged")
    finally:
        shutil.rmtree(inidir, ignore_errors=True)
        _CFG_CACHE.clear()
    ws = list(col.witnesses.values())
    if not ws:
        return None
    w = dict(ws[0])
    w["all_keys"] = [x["key"] for x in ws]
    return w


if __name__ == "__main__":
    import argparse
    ap = argparse.ArgumentParser()
    ap.add_argument("tier", nargs="?", default="quick")
    ap.add_argument("--seed", type=int, default=0)
    ap.add_argument("--jobs", type=int, default=None)
    ap.add_argument("--replay", help="JSON of one witness input")
    a = ap.parse_args()
    if a.replay:
        print(json.dumps(replay(json.loads(a.replay)), indent=1, default=repr))
    else:
        print(json.dumps(run(a.tier, a.seed, a.jobs), indent=1, default=repr))
