"""C07 — bounded stand-in for `yaml-paths`' recursive search.

Drives the REAL `yamlpath.commands.yaml_paths.search_for_paths` (which calls
`yield_children`) with terms made by the real `get_search_term`, exactly the way
`process_yaml_file`/`main` call it (`all_anchors` from `Anchors.scan_for_anchors`,
the four `--anchorsonly/--allowkeyaliases/--allowvaluealiases/--allowaliases`
settings mapped to `include_key_aliases`/`include_value_aliases` as `main` does),
and compares with `spec.search.classify`:

  crash        any exception that is not a YAMLPathException (search or re-query)
  resolvable   every yielded path, printed (`str(path)`) and fed back into
               `Processor.get_nodes(printed, mustexist=True, pathsep=<same>)` on the
               same loaded document, yields exactly ONE node coordinate
  sound        that coordinate is a location the spec requires or tolerates
  complete     every required location is reported
  once         no printed path is yielded twice, no location is reported twice

Witness keys (computed from the failing clause, never from the raw input):
  C07/crash/<Exc>@<file:function>              C07/search-raised/YAMLPathException@<..>
  C07/reresolve-fails|-empty|-ambiguous/<segment class of the path>   C07/reresolve-crash/<Exc>@<..>
  C07/reresolve-bad-coordinates/<what>         C07/reported-twice/same-path|two-paths-one-node/<segment class>
  C07/unsound/<why the spec forbids the node>[/root-scalar|set-in-seq]
  C07/incomplete/<why the spec demands the node>[/root-scalar|set-in-seq|merged|alias-key|alias-value]
  C07/get-search-term/crash|wrong-terms|malformed-accepted/...
A node the spec marks "optional" (from-code clauses R3-R6 of spec/search.py) never yields a witness.

Out of the statement's quantifier (observed only, never a witness):
`--refnames` (search_anchors=True): crash / resolvability observations are counted
under out_of_scope.  `decrypt_eyaml` is never set (no eyaml binary here).
"""
import itertools
import json
import random
import sys
import traceback

from rtc import gen, harness, pathgen
from spec import search as spec

OPS = pathgen.OPS
TERMS = ("a", "1", "b", "x")
MODES = ("values", "keys", "keys-only")          # -i / -k / -K
ALIAS = ("A", "Y", "y", "l")                     # -A / -Y (default) / -y / -l
ALIAS_FLAGS = {"A": (False, False), "Y": (True, False), "y": (False, True), "l": (True, True)}
SEPS = (".", "/")

# ------------------------------------------------------------------ hand-built documents
HAND_DOCS = [
    # scalar anchor under a key; aliases under a key and in a sequence
    "a: &v a\nb: *v\nc: [*v, a]\n",
    # anchor inside a sequence, alias in the same sequence, in another one and under a key
    "s: [&v a, *v, b]\nt: [*v, 1]\nk: *v\n",
    # root sequence with anchor + alias
    "[&v a, *v, a, &w 1, {x: *w}]\n",
    # int-like anchored scalar, alias under a key whose name is in the term alphabet
    "a: &v 1\nb: {a: *v, x: 1}\n",
    # anchored keys
    "anchors:\n  &k a: 1\n*k :\n  x: a\n  b: 1\n",
    "m:\n  &k x.y: a\n  &j 'k e': 1\nn:\n  *k : b\n  *j : [a, x]\n",
    # anchored key + anchored value (tests/test_commands_yaml_paths.py::test_expanded_key_refmatches shape)
    "anchors:\n  &k a: &v b\n*k :\n  i: *v\n  x: x\n",
    # one merge key (anchor name outside / inside the term alphabet; one overridden key)
    "base: &m {x: 1, a: a}\nd:\n  <<: *m\n  b: 1\n",
    "base: &a {x: 1, b: a}\nd:\n  <<: *a\n  x: b\n",
    "- &m {a: 1, 'k e': x}\n- {<<: *m, 1: a}\n",
    # merge source carrying an anchored scalar
    "base: &m {x: &v a}\nd: {<<: *m, b: *v}\n",
    # aliased containers as values / elements
    "a: &m {x: 1, b: a}\nb: *m\n",
    "[&m {x: a}, *m, [*m]]\n",
    "a: &s [a, 1]\nx: *s\n",
    # aliased set member (tests/...::test_aliased_set_result shape), set under a key, set in a sequence
    "l: [&v a]\ns: !!set {*v : null, b: null}\n",
    "k: !!set {a: null, x.y: null}\nj: [!!set {a: null, 1: null}]\n",
    # keys that need escapes, with anchors
    "'k e': &v a\nx.y: [*v, {'k e': *v}]\n",
    # no anchors at all, but keys/values equal to each other (key vs value on one path)
    "a: a\nb: {a: {a: 1, b: [a, {}, []]}}\nx: [b, {x: x}]\n",
    # an anchor that lives below an aliased key, its alias elsewhere (expansion under -A discards the original)
    "p:\n  x: {&v k: 1}\n  y: {*v : [&a a]}\n  z: [*a, b]\n",
    # merge keys / aliased keys in hashes that are ELEMENTS OF A LIST below a matchable parent (expansion passes through the
    # list and must keep applying the alias options)
    "base: &m {x: 1, a: a}\nd:\n  - {<<: *m, b: 1}\n  - {<<: *m, x: b}\n",
    "k: {&j a: 1}\nd: [{*j : x, b: a}, [{*j : b}]]\n",
    # one anchor name used in KEY position and in VALUE position (the alias bookkeeping is shared between the two kinds)
    "&k a: x\nb: *k\nv: &v 1\nm: {*v : a, x: *v}\n",
    # an anchor defined INSIDE an anchored hash, merged elsewhere (the anchor table has to descend into anchored containers)
    "base: &m\n  x: &j {a: 1, b: a}\nd:\n  k: {<<: *j, x: b}\n",
    # sequences in sequences below keys (expansion has to reach the innermost leaves)
    "a: [[a, [b]], {x: [1, {b: a}]}]\nb: {x: [[x]], 1: [[]]}\n",
]

BAD_EXPRESSIONS = ("", "=", "!", "abc", "a=b", "=~a", "!!=a", " =a")


def expressions():
    out = []
    for op, inv, term in itertools.product(OPS, (False, True), TERMS):
        text = ("!" if inv else "") + (("=~/%s/" % term) if op == "=~" else (op + term))
        out.append((text, op, inv, term))
    return out


EXPRS = expressions()
# terms with backslash-escaped characters (the escape is consumed, the character is part of the term): checked at
# get_search_term only, the sweeps keep the plain term alphabet
ESCAPED_EXPRS = [("=a\\ b", "=", False, "a b"), ("!=a\\.b", "=", True, "a.b"), ("^a\\]", "^", False, "a]"), ("$\\ a", "$", False, " a"),
                 ("%x\\'y", "%", False, "x'y")]


def parse_expr(expr):
    """(text, operator, inverted, term) of any well-formed EXPRESSION (used by replay)."""
    for e in EXPRS:
        if e[0] == expr:
            return e
    body = expr[1:] if expr.startswith("!") else expr
    for op in sorted(OPS, key=len, reverse=True):
        if body.startswith(op):
            term = body[len(op):]
            if op == "=~":
                if len(term) < 2 or term[0] != term[-1]:
                    break
                term = term[1:-1]
            return (expr, op, expr.startswith("!"), term)
    raise ValueError("not a search expression: %r" % (expr,))


# ------------------------------------------------------------------ templates with anchors (random extension)
class Anch(tuple):
    """Anch((name, node)): `&name node` (node a template or, as a map key, a key)."""


class Ref(tuple):
    """Ref((name,)): `*name`."""


MERGE = "<<"


def to_yaml_a(t):
    if isinstance(t, Anch):
        return "&%s %s" % (t[0], to_yaml_a(t[1]))
    if isinstance(t, Ref):
        return "*%s" % t[0]
    if isinstance(t, dict):
        parts = []
        for k, v in t.items():
            if k == MERGE:
                parts.append("<<: %s" % to_yaml_a(v))
            elif isinstance(k, Ref):
                parts.append("*%s : %s" % (k[0], to_yaml_a(v)))
            elif isinstance(k, Anch):
                parts.append("&%s %s: %s" % (k[0], gen.scalar_yaml(k[1]), to_yaml_a(v)))
            else:
                parts.append("%s: %s" % (gen.scalar_yaml(k), to_yaml_a(v)))
        return "{" + ", ".join(parts) + "}"
    if isinstance(t, gen.SetT):
        return gen.to_yaml(t)
    if isinstance(t, (list, tuple)):
        return "[" + ", ".join(to_yaml_a(v) for v in t) + "]"
    return gen.scalar_yaml(t)


def decorate(t, rng):
    """Sprinkle anchors / aliases / one merge key over a plain template (document order)."""
    names = iter(["v", "a", "w", "m", "b", "k", "j", "x"])
    scal, maps, keys = [], [], []          # defined so far: anchor names (maps: (name, keyset))
    state = {"merge_used": False, "n": 0}

    def new_name():
        state["n"] += 1
        return next(names)

    def rec(node, depth):
        if isinstance(node, gen.SetT):
            return node
        if isinstance(node, dict):
            out = {}
            plain_keys = set(node.keys())
            if maps and not state["merge_used"] and rng.random() < 0.5:
                out[MERGE] = Ref((rng.choice(maps)[0],))
                state["merge_used"] = True
            for k, v in node.items():
                kk = k
                if state["n"] < 5 and isinstance(k, str) and rng.random() < 0.15:
                    name = new_name()
                    kk = Anch((name, k))
                    pending_keys.append((name, k))
                out[kk] = rec(v, depth + 1)
            usable = [(n, kt) for n, kt in keys if kt not in plain_keys]
            if usable and rng.random() < 0.5:
                n, kt = rng.choice(usable)
                out[Ref((n,))] = rec(rng.choice([1, "a", {"x": "a"}, ["a"]]), depth + 1)
            keys.extend(pending_keys)
            del pending_keys[:]
            if depth > 0 and out and state["n"] < 5 and rng.random() < 0.3 and not any(isinstance(k, Ref) or k == MERGE for k in out):
                name = new_name()
                maps.append((name, plain_keys))
                return Anch((name, out))
            return out
        if isinstance(node, list):
            out = [rec(v, depth + 1) for v in node]
            if depth > 0 and out and state["n"] < 5 and rng.random() < 0.1:
                name = new_name()
                scal.append(name)           # reusable wherever a value may stand
                return Anch((name, out))
            return out
        # scalar leaf
        if scal and rng.random() < 0.35:
            return Ref((rng.choice(scal),))
        if node is not None and state["n"] < 5 and rng.random() < 0.3:
            name = new_name()
            scal.append(name)
            return Anch((name, node))
        return node

    pending_keys = []
    return rec(t, 0)


# ------------------------------------------------------------------ model of a loaded document
def _anchor_name(node):
    a = getattr(node, "anchor", None)
    if a is None:
        return None
    v = getattr(a, "value", None)
    return None if v is None else str(v)


def model_of(data):
    """Plain model (see spec.search) of ruamel round-trip data; also says whether it has anchors."""
    from ruamel.yaml.comments import CommentedMap, CommentedSeq, CommentedSet
    seen = {}                     # anchor name -> id of the first node carrying it
    info = {"anchors": False}

    def flags(node):
        name = _anchor_name(node)
        if name is None:
            return None, False
        info["anchors"] = True
        if name in seen:
            return name, True
        seen[name] = id(node)
        return name, False

    def rec(node):
        name, alias = flags(node)
        if isinstance(node, CommentedSet):
            members = []
            for key in node:
                ka, kal = flags(key)
                members.append(spec.entry(key, None, ka, kal))
            return spec.setnode(members, name, alias)
        if isinstance(node, CommentedMap):
            own = list(node.non_merged_items())
            own_keys = [k for k, _ in own]
            entries = []
            merges = []
            for _pos, src in getattr(node, "merge", None) or []:
                mname = _anchor_name(src)
                if mname is None:
                    raise RuntimeError("merge source without an anchor")
                info["anchors"] = True
                merges.append(mname)
            for k, v in own:
                ka, kal = flags(k)
                entries.append(spec.entry(k, rec(v), ka, kal, False))
            for k, v in node.items():
                if any(k == ok and type(k) is type(ok) for ok in own_keys) or k in own_keys:
                    continue
                ka, kal = flags(k)
                entries.append(spec.entry(k, rec(v), ka, kal, True))
            return spec.mapping(entries, merges, name, alias)
        if isinstance(node, CommentedSeq):
            return spec.seq([rec(v) for v in node], name, alias)
        if isinstance(node, (dict, list, set)):
            raise RuntimeError("unexpected container type %r" % type(node))
        return spec.scalar(node, name, alias)

    m = rec(data)
    return m, info["anchors"]


def shape_of(model):
    k = model["k"]
    deco = ("&" if model.get("anchor") and not model.get("alias") else "") + ("*" if model.get("alias") else "")
    if k == "scalar":
        v = model["value"]
        return deco + ("n" if v is None else type(gen.plain(v)).__name__[0])
    if k == "seq":
        return deco + "[" + ",".join(shape_of(i) for i in model["items"]) + "]"
    if k == "set":
        return deco + "S%d" % len(model["members"])
    parts = []
    for e in model["entries"]:
        kd = ("*" if e["key_alias"] else ("&" if e["key_anchor"] else "")) + ("<" if e["merged"] else "")
        kt = "i" if isinstance(e["key"], int) else ("e" if any(c in str(e["key"]) for c in ". /") else "s")
        parts.append(kd + kt + ":" + shape_of(e["val"]))
    return deco + "{" + ",".join(parts) + ("<<" if model["merges"] else "") + "}"


# ------------------------------------------------------------------ one document, many configurations
class Ctx:
    def __init__(self, text):
        from yamlpath.common import Anchors
        from yamlpath.eyaml import EYAMLProcessor
        self.text = text
        self.data = gen.load(text)
        self.log = gen.QuietLog()
        self.proc = EYAMLProcessor(self.log, self.data, binary="eyaml")
        self.all_anchors = {}
        Anchors.scan_for_anchors(self.data, self.all_anchors)
        self.model, self.has_anchors = model_of(self.data)
        self.shape = shape_of(self.model)
        self.spec_cache = {}


_TERM_CACHE = {}


def real_terms(expr):
    from yamlpath.commands import yaml_paths as yp
    t = _TERM_CACHE.get(expr)
    if t is None:
        t = yp.get_search_term(gen.QuietLog(), expr)
        if t is None:
            # check_get_search_term() reports this as a witness of its own; the sweep skips the expression
            return None
        _TERM_CACHE[expr] = t
    return t


def innermost_repo_frame(exc):
    tb = traceback.extract_tb(exc.__traceback__)
    for fr in reversed(tb):
        if "/yamlpath/" in fr.filename:
            return "%s:%s" % (fr.filename.split("/yamlpath/", 1)[1], fr.name)
    return "outside-yamlpath"


def locate(ctx, nc):
    """Locator of a NodeCoords, derived from its ancestry and verified by walking the document."""
    from ruamel.yaml.comments import CommentedMap, CommentedSeq, CommentedSet
    cur = ctx.data
    loc = []
    anc = list(nc.ancestry)
    for i, (parent, ref) in enumerate(anc):
        if parent is not cur:
            return None, "ancestry-parent-mismatch"
        last = i == len(anc) - 1
        if isinstance(parent, CommentedSeq):
            if not isinstance(ref, int) or not -len(parent) <= ref < len(parent):
                return None, "ancestry-bad-index"
            loc.append(("i", ref))
            cur = parent[ref]
        elif isinstance(parent, CommentedSet):
            if ref not in parent:
                return None, "ancestry-bad-member"
            loc.append(("k", ref))
            cur = ref
        elif isinstance(parent, CommentedMap):
            hashable = True
            try:
                present = ref in parent
            except TypeError:
                hashable, present = False, False
            if present:
                loc.append(("k", ref))
                cur = parent[ref]
            else:
                srcs = [s for _p, s in (getattr(parent, "merge", None) or [])]
                hit = [s for s in srcs if s is ref or s is nc.node]
                if hit and last:
                    loc.append(("merge", _anchor_name(hit[0])))
                    cur = hit[0]
                else:
                    return None, "ancestry-bad-key" if hashable else "ancestry-unhashable-ref"
        else:
            return None, "ancestry-through-scalar"
    node = nc.node
    if node is not cur and not (node == cur and type(node) is type(cur)):
        return None, "node-is-not-at-its-ancestry"
    return tuple(loc), None


def _jkey(v):
    return v if isinstance(v, (str, int, float, bool)) or v is None else repr(v)


def loc_json(loc):
    return [[k, _jkey(gen.plain(v))] for k, v in loc]


def norm_loc(loc):
    """Hashable, type-aware form of a locator (1 and '1' and True stay distinct)."""
    return tuple((k, type(gen.plain(v)).__name__, gen.plain(v)) for k, v in loc)


# Tags that go into a witness key: only those that name a different mechanism, never ones that
# merely describe where in the document the node happens to sit.
UNSOUND_TAGS = ("root-scalar", "set-in-seq")
INCOMPLETE_TAGS = ("root-scalar", "set-in-seq", "merged", "alias-key", "alias-value")


def tag_suffix(tags, which):
    t = [x for x in which if x in tags]
    for dominant in ("root-scalar", "set-in-seq"):      # these name the mechanism on their own
        if dominant in t:
            t = [dominant]
    return ("/" + "+".join(t)) if t else ""


def seg_class(path):
    """Shape class of a yielded YAMLPath: which segment kinds it uses."""
    from yamlpath.enums import PathSegmentTypes
    kinds = set()
    try:
        for typ, _ in path.escaped:
            kinds.add(typ)
    except Exception:
        return "unparsable"
    if PathSegmentTypes.ANCHOR in kinds:
        return "anchor-segment"
    if kinds - {PathSegmentTypes.KEY, PathSegmentTypes.INDEX}:
        return "other-segment"
    return "key-index-segments" if kinds else "empty-path"


def run_case(coll, ctx, expr_t, mode, alias, expand, sep, refnames=False):
    """One (document, expression, configuration): evaluates all clauses, feeds the collector."""
    from yamlpath.commands import yaml_paths as yp
    from yamlpath.enums import PathSeparators
    from yamlpath.exceptions import YAMLPathException
    expr, op, inv, term = expr_t
    V = mode != "keys-only"
    K = mode != "values"
    IK, IV = ALIAS_FLAGS[alias]
    ps = PathSeparators.DOT if sep == "." else PathSeparators.FSLASH
    inp = {"yaml": ctx.text, "expr": expr, "mode": mode, "alias": alias, "expand": expand, "sep": sep}
    if refnames:
        inp["refnames"] = True
    terms = real_terms(expr)
    if terms is None:
        coll.out_of_scope("expression-refused-by-get_search_term")
        return

    def wit(key, what, observed, expected):
        if refnames:                      # outside the quantifier: observation only
            coll.out_of_scope("refnames:" + key)
        else:
            coll.witness(key, what, dict(inp, _key=key), observed, expected)   # _key: which clause replay() should return

    # ---- the real search, called the way process_yaml_file does
    try:
        yielded = list(yp.search_for_paths(
            ctx.log, ctx.proc, ctx.data, terms, ps,
            search_values=V, search_keys=K, search_anchors=refnames,
            include_key_aliases=IK, include_value_aliases=IV,
            decrypt_eyaml=False, expand_children=expand, all_anchors=ctx.all_anchors))
    except YAMLPathException as ex:
        wit("C07/search-raised/YAMLPathException@" + innermost_repo_frame(ex),
            "search_for_paths raised instead of reporting", "%s: %s" % (type(ex).__name__, ex), "a list of paths")
        coll.case(("raise", ctx.shape, mode, alias, expand, sep, op, inv, "YPE"))
        return
    except Exception as ex:               # noqa: BLE001 - any other exception is the finding
        wit("C07/crash/%s@%s" % (type(ex).__name__, innermost_repo_frame(ex)),
            "search_for_paths raised a non-YAMLPathException", "%s: %s" % (type(ex).__name__, ex), "no exception")
        coll.case(("raise", ctx.shape, mode, alias, expand, sep, op, inv, type(ex).__name__))
        return

    # ---- re-query every printed path
    reported = []                          # (printed, [locators] | None, problem)
    for p in yielded:
        printed = str(p)
        try:
            ncs = list(ctx.proc.get_nodes(printed, mustexist=True, pathsep=ps))
        except YAMLPathException as ex:
            reported.append((printed, p, None, "unresolvable"))
            wit("C07/reresolve-fails/" + seg_class(p),
                "a reported path does not resolve on the same document (mustexist=True)",
                {"path": printed, "error": str(ex)[:200]}, "exactly one node")
            continue
        except Exception as ex:           # noqa: BLE001
            reported.append((printed, p, None, "crash"))
            wit("C07/reresolve-crash/%s@%s" % (type(ex).__name__, innermost_repo_frame(ex)),
                "re-querying a reported path raised a non-YAMLPathException",
                {"path": printed, "error": "%s: %s" % (type(ex).__name__, ex)}, "exactly one node")
            continue
        locs = []
        bad = None
        for nc in ncs:
            loc, why = locate(ctx, nc)
            if loc is None:
                bad = why
                break
            locs.append(loc)
        if bad is not None:
            reported.append((printed, p, None, bad))
            wit("C07/reresolve-bad-coordinates/" + bad,
                "the node coordinates returned for a reported path do not describe a place in the document",
                {"path": printed, "problem": bad}, "a node of the document")
            continue
        reported.append((printed, p, locs, None))
        if len(locs) != 1:
            wit("C07/reresolve-%s/%s" % ("ambiguous" if locs else "empty", seg_class(p)),
                "a reported path resolves to %d nodes instead of exactly the one that matched" % len(locs),
                {"path": printed, "resolves_to": [loc_json(l) for l in locs], "all_reported": [r[0] for r in reported]},
                "exactly one node")

    if refnames:
        coll.case(None)
        return

    # ---- the oracle
    ck = (expr, mode, alias, expand)
    cl = ctx.spec_cache.get(ck)
    if cl is None:
        lst = spec.classify(ctx.model, (op, inv, term),
                            {"search_values": V, "search_keys": K, "include_key_aliases": IK,
                             "include_value_aliases": IV, "expand_children": expand})
        cl = {}
        for e in lst:
            nl = norm_loc(e.locator)
            if nl in cl:
                raise RuntimeError("oracle emitted a location twice: %r in %r" % (e, ctx.text))
            cl[nl] = e
        ctx.spec_cache[ck] = cl

    def expected_view():
        return {"required": [pathgen.render(list(e.path_segments), sep) for e in cl.values() if e.status == spec.REQUIRED],
                "reported": [r[0] for r in reported]}

    # once: same printed path twice
    seen_txt = {}
    for printed, p, locs, prob in reported:
        seen_txt[printed] = seen_txt.get(printed, 0) + 1
    dup_txt = [t for t, n in seen_txt.items() if n > 1]
    sig_out = []
    if dup_txt:
        cls = seg_class([r[1] for r in reported if r[0] == dup_txt[0]][0])
        wit("C07/reported-twice/same-path/" + cls,
            "search_for_paths yields the same path more than once for one expression",
            {"path": dup_txt[0], "times": seen_txt[dup_txt[0]], "all_reported": [r[0] for r in reported]},
            "each match reported at most once")
        sig_out.append("dup")

    covered = {}
    for printed, p, locs, prob in reported:
        if locs is None:
            sig_out.append("unres")
            continue
        if len(locs) != 1:
            for l in locs:                # root cause already reported as ambiguity: no cascade
                covered.setdefault(norm_loc(l), []).append(printed)
            sig_out.append("amb%d" % len(locs))
            continue
        nl = norm_loc(locs[0])
        e = cl.get(nl)
        if e is None:
            raise RuntimeError("located a node the oracle does not know: %r in %r" % (locs[0], ctx.text))
        prev = covered.setdefault(nl, [])
        if prev and printed not in prev:
            wit("C07/reported-twice/two-paths-one-node/" + seg_class(p),
                "two different reported paths resolve to the same node",
                {"paths": prev + [printed]}, "each match reported at most once")
        prev.append(printed)
        sig_out.append(e.status[0] + ":" + e.why)
        if e.status == spec.FORBIDDEN:
            wit("C07/unsound/%s%s" % (e.why, tag_suffix(e.tags, UNSOUND_TAGS)),
                "a path is reported for a node that the expression/options do not select (%s)" % e.why,
                {"path": printed, "node": loc_json(locs[0]), "all_reported": [r[0] for r in reported]},
                expected_view())
    for nl, e in cl.items():
        if e.status == spec.REQUIRED and nl not in covered:
            sig_out.append("miss:" + e.why)
            wit("C07/incomplete/%s%s" % (e.why, tag_suffix(e.tags, INCOMPLETE_TAGS)),
                "a node that satisfies the expression under these options is not reported (%s)" % e.why,
                {"missing": pathgen.render(list(e.path_segments), sep), "node": loc_json(e.locator),
                 "all_reported": [r[0] for r in reported]},
                expected_view())

    nontrivial = bool(reported) or any(s.startswith("miss") for s in sig_out)
    sig = None
    if nontrivial:
        sig = (ctx.shape, mode, alias if ctx.has_anchors else "-", expand, sep, op, inv, sorted(sig_out))
    sample = None
    if reported and len(coll.samples) < coll.max_samples and (coll.evaluations % 97 == 0):
        sample = {"inp": inp, "reported": [r[0] for r in reported]}
    coll.case(sig, sample)


# ------------------------------------------------------------------ enumeration
def all_configs(alias_modes):
    return list(itertools.product(EXPRS, MODES, alias_modes, (False, True), SEPS))


def _work(chunk, seed):
    """chunk: list of (text, n_configs or 0 = all, alias_modes, tag)."""
    coll = harness.Collector()
    for idx, (text, ncfg, alias_modes, tag) in enumerate(chunk):
        ctx = Ctx(text)
        cfgs = all_configs(alias_modes)
        if ncfg and ncfg < len(cfgs):
            rng = random.Random("%s|%s|%s" % (seed, tag, text))
            cfgs = rng.sample(cfgs, ncfg)
        for expr_t, mode, alias, expand, sep in cfgs:
            run_case(coll, ctx, expr_t, mode, alias, expand, sep)
        if ctx.has_anchors:
            # outside the quantifier: --refnames, observation only (a thin slice)
            rng = random.Random("%s|refnames|%s" % (seed, text))
            for expr_t, mode, alias, expand, sep in rng.sample(cfgs, min(len(cfgs), 60)):
                run_case(coll, ctx, expr_t, mode, alias, expand, sep, refnames=True)
    return coll.result(internal=True)


def check_get_search_term(coll):
    """`get_search_term`: EXPRESSION = [!]<operator><term>; anything else -> None (+ logged error)."""
    from yamlpath.commands import yaml_paths as yp
    from yamlpath.enums import PathSearchMethods
    sym = {str(m): m for m in PathSearchMethods}
    if set(sym) != set(OPS):
        raise RuntimeError("operator table differs from the documented nine: %r" % sorted(sym))
    for expr, op, inv, term in EXPRS + ESCAPED_EXPRS:
        inp = {"expr": expr, "get_search_term": True}
        try:
            t = yp.get_search_term(gen.QuietLog(), expr)
        except Exception as ex:           # noqa: BLE001
            coll.witness("C07/get-search-term/crash/%s@%s" % (type(ex).__name__, innermost_repo_frame(ex)),
                         "get_search_term raised", inp, "%s: %s" % (type(ex).__name__, ex), "SearchTerms or None")
            coll.case(("gst", "raise", op, inv))
            continue
        got = None if t is None else (bool(t.inverted), str(t.method), str(t.term))
        want = (inv, op, term)
        if got != want:
            coll.witness("C07/get-search-term/wrong-terms/" + ("none" if got is None else "differs"),
                         "get_search_term did not turn <operator><term> into (inverted, method, term)",
                         inp, got, want)
        coll.case(("gst", op, inv, got == want))
    for expr in BAD_EXPRESSIONS:
        inp = {"expr": expr, "get_search_term": True}
        log = gen.QuietLog()
        try:
            t = yp.get_search_term(log, expr)
        except Exception as ex:           # noqa: BLE001
            coll.witness("C07/get-search-term/crash/%s@%s" % (type(ex).__name__, innermost_repo_frame(ex)),
                         "get_search_term raised on a malformed expression", inp,
                         "%s: %s" % (type(ex).__name__, ex), "None and a logged error")
            coll.case(("gst-bad", "raise", expr))
            continue
        if t is not None or not any(lvl == "error" for lvl, _ in log.msgs):
            coll.witness("C07/get-search-term/malformed-accepted", "a malformed expression was not refused with an error",
                         inp, repr(t), "None and a logged error")
        coll.case(("gst-bad", expr, t is None))


def _run_main(argv):
    """yaml_paths.main() in-process (STDIN is a TTY: nothing is read from it) -> (exit code, stdout text)."""
    from rtc import c16
    r = c16.run_cli("paths", argv)
    return r["code"], r["out"]


STREAM_DOCS = ["a: a\nb: {c: a, d: 1}\n", "a: a\nx: [a, b]\nb: {c: a}\n", "k: 1\n", "b: {c: a}\n"]


def check_main_streams(coll):
    """A multi-document file is searched document by document: what `yaml-paths` prints for document i of a stream is
    what it prints for that document alone (same paths, same order) -- results of one document never depend on another."""
    import os
    import tempfile
    d = tempfile.mkdtemp(prefix="c07-main-")
    try:
        for exprs in (["=a"], ["=a", "=1"], ["%a"]):
            for sep in (".", "/"):
                base = ["-t", sep] + [x for e in exprs for x in ("-s", e)]
                alone = []
                for i, text in enumerate(STREAM_DOCS):
                    fn = os.path.join(d, "one%d.yaml" % i)
                    with open(fn, "w") as fh:
                        fh.write(text)
                    code, out = _run_main(base + [fn])
                    alone.append([ln.split(": ", 1)[-1] for ln in out.splitlines()])
                fn = os.path.join(d, "stream.yaml")
                with open(fn, "w") as fh:
                    fh.write("".join("---\n" + t for t in STREAM_DOCS))
                code, out = _run_main(base + [fn])
                got = [[] for _ in STREAM_DOCS]
                for ln in out.splitlines():
                    head, _, rest = ln.partition(": ")
                    idx = head.rsplit("/", 1)[-1].split("[")[0]
                    if idx.isdigit() and int(idx) < len(got):
                        got[int(idx)].append(rest)
                inp = {"main": True, "expressions": exprs, "sep": sep, "stream": STREAM_DOCS}
                coll.case(("main-stream", tuple(exprs), sep, code))
                for i in range(len(STREAM_DOCS)):
                    if got[i] != alone[i]:
                        coll.witness("C07/main/stream-document-differs-from-the-document-alone",
                                     "document %d of a multi-document file is reported differently than on its own" % i, inp,
                                     observed={"document": i, "in_stream": got[i]}, expected={"alone": alone[i]})
                        break
    finally:
        import shutil
        shutil.rmtree(d, ignore_errors=True)


BOUNDS = {
    "quick": {"hand_docs": "all x all configs", "trees_exhaustive": (3, 3), "value_trees_cfgs": 250,
              "trees_sampled": (4, 3), "sampled_cfgs_per_tree": 40,
              "random_docs": 400, "random_cfgs_per_doc": 60, "random_max_nodes": 14},
    "thorough": {"hand_docs": "all x all configs", "trees_exhaustive": (4, 3), "value_trees_cfgs": 0,
                 "trees_sampled": (5, 3), "sampled_cfgs_per_tree": 12,
                 "random_docs": 6000, "random_cfgs_per_doc": 150, "random_max_nodes": 14},
}


def random_docs(seed, n, max_nodes):
    rng = random.Random("c07|%s" % seed)
    out = []
    tries = 0
    while len(out) < n and tries < n * 20:
        tries += 1
        t = gen.random_tree(rng, max_nodes=max_nodes)
        if not isinstance(t, (dict, list)):
            continue
        text = to_yaml_a(decorate(t, rng)) + "\n"
        try:
            gen.load(text)
        except ValueError:
            raise RuntimeError("decorate() produced unloadable YAML: %r" % text)
        out.append(text)
    return out


def run(tier="quick", seed=0, jobs=None):
    b = BOUNDS[tier]
    coll = harness.Collector()
    check_get_search_term(coll)
    check_main_streams(coll)
    items = []
    for text in HAND_DOCS:
        items.append((text, 0, ALIAS, "hand"))
    n, d = b["trees_exhaustive"]
    small = gen.trees(n, d)
    for t in small:
        items.append((gen.to_yaml(t) + "\n", 0, ("A", "l"), "tree"))
    # value-exhaustive core: all nine scalars on the <= 3-node shapes
    seen_txt = {it[0] for it in items}
    for t in gen.trees(3, 3, scalars=gen.SCALARS_FULL):
        txt = gen.to_yaml(t) + "\n"
        if txt not in seen_txt:
            items.append((txt, b["value_trees_cfgs"], ("A", "l"), "tree-values"))
            seen_txt.add(txt)
    n2, d2 = b["trees_sampled"]
    for t in gen.trees(n2, d2):
        if gen.size(t) > n:
            items.append((gen.to_yaml(t) + "\n", b["sampled_cfgs_per_tree"], ("A", "l"), "tree-sampled"))
    for text in random_docs(seed, b["random_docs"], b["random_max_nodes"]):
        items.append((text, b["random_cfgs_per_doc"], ALIAS, "random"))
    # Order kept on purpose (hand-built, then small trees first): the first inputs recorded per witness key
    # are then the simplest ones.  Small chunks + a dynamic pool keep the load balanced.
    for res in harness.pmap_chunks(_work, items, jobs=jobs, chunk=4, extra=(seed,)):
        coll.merge(res)
    full = len(all_configs(ALIAS))
    rule = ("search_for_paths(doc, get_search_term(expr), opts) vs spec.search.classify: no non-YAMLPathException; every "
            "printed path re-queried with Processor.get_nodes(mustexist=True, same pathsep) gives exactly one node; that "
            "node is required/tolerated by the spec (sound); every required node is reported (complete); nothing twice. "
            "Space: %d hand-built anchor/alias/merge documents x %d configs (9 ops x inverted x terms %s x %s x alias %s x "
            "expand x sep); gen.trees%r x all configs (alias modes A,l: no anchors) + all 9 scalars on <=3-node shapes "
            "(%s cfgs/doc); "
            "gen.trees%r sampled %d cfgs/doc; %d seeded random decorated trees (<=%d nodes) x %d cfgs; --refnames observed only."
            % (len(HAND_DOCS), full, list(TERMS), list(MODES), list(ALIAS), b["trees_exhaustive"],
               b["value_trees_cfgs"] or "all", b["trees_sampled"],
               b["sampled_cfgs_per_tree"], b["random_docs"], b["random_max_nodes"], b["random_cfgs_per_doc"]))
    bounds = dict(b)
    bounds.update({"operators": list(OPS), "terms": list(TERMS), "modes": list(MODES), "alias_modes": list(ALIAS),
                   "seps": list(SEPS), "documents": len(items), "seed": seed, "tier": tier})
    # thorough: the stated core (hand documents and gen.trees(4,3), every configuration) is enumerated
    # completely; the larger trees and the random documents are a sampled extension on top of it.
    return coll.result(rule=rule, exhaustive=(tier == "thorough"), bounds=bounds)


def replay(inp):
    """Re-run one witness input on the current tree; the witness dict if it still fails, else None."""
    coll = harness.Collector()
    if inp.get("get_search_term"):
        global EXPRS
        keep = EXPRS
        try:
            match = [e for e in keep if e[0] == inp["expr"]]
            EXPRS = match
            if match:
                check_get_search_term(coll)
            else:
                from yamlpath.commands import yaml_paths as yp
                log = gen.QuietLog()
                try:
                    t = yp.get_search_term(log, inp["expr"])
                    if t is not None or not any(lvl == "error" for lvl, _ in log.msgs):
                        coll.witness("C07/get-search-term/malformed-accepted", "", inp, repr(t), "None")
                except Exception as ex:   # noqa: BLE001
                    coll.witness("C07/get-search-term/crash/%s@%s" % (type(ex).__name__, innermost_repo_frame(ex)),
                                 "", inp, str(ex), "None")
        finally:
            EXPRS = keep
    else:
        ctx = Ctx(inp["yaml"])
        run_case(coll, ctx, parse_expr(inp["expr"]), inp["mode"], inp["alias"], bool(inp["expand"]), inp["sep"],
                 refnames=bool(inp.get("refnames")))
    ws = list(coll.witnesses.values())
    if not ws:
        return None
    want = inp.get("_key")
    for w in ws:
        if want and w["key"] == want:
            return w
    return ws[0]


if __name__ == "__main__":
    tier = sys.argv[1] if len(sys.argv) > 1 else "quick"
    if tier == "replay":
        print(json.dumps(replay(json.loads(sys.argv[2])), indent=1, default=repr))
        sys.exit(0)
    seed = int(sys.argv[2]) if len(sys.argv) > 2 else 0
    jobs = int(sys.argv[3]) if len(sys.argv) > 3 else None
    print(json.dumps(run(tier, seed, jobs), indent=1, default=repr))
