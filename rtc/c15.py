"""C15 bounded stand-in: evaluating a syntactically valid path fails only with YAMLPathException.

Exception-type monitor on Processor.get_nodes(path, mustexist=True) (fully consumed) and
Processor.exists(path) over the C01 cross product (documents of rtc.gen.trees incl. empty
containers, nulls and mixed-type lists; anchors/aliases/merge keys; seeded random trees) extended
with: keyword segments ([has_child()], [max()], [min()], [unique()], [distinct()], [parent()],
[name()], inverted forms, absent/odd parameters), collectors whose operands select scalars (the
quantifier), indexes and slice bounds over negative / in-range / out-of-range / non-integer
values, and invalid regular expressions.

Either call returns, or raises yamlpath.exceptions.YAMLPathException (any subclass).  Anything
else is a witness keyed by  exception type @ innermost frame inside the yamlpath package
(file:function) : the stripped source line of that frame (text, not line number).
Paths the library's parser refuses (YAMLPathException) are not "syntactically valid": out of scope;
parser crashes belong to C14.
"""
import json
import os
import copy
import random
import sys

from rtc import gen, pathgen
from rtc.c01 import ANCHOR_DOCS, anchor_paths, call_real, doc_shape, path_sig
from rtc.harness import Collector, pmap_chunks
from spec import query as Q

PROP = "C15"

EXTRA_SLICES = ((0, 0), (2, 1), (-1, 0), (-2, -1), (-4, -1), (-1, -3), (3, 3), (-5, -5), (0, 9), (-9, 9),
                ("a", "b"), ("a", "a"), ("0", "b"), ("a", "z"), ("", "z"))
EXTRA_IDX = (-9, -4, 4, 9)
EXTRA_KEYS = ("0", "2", "7", "-1", "-2", "-4", "c")
BAD_REGEX = ("[", "(", "*", "a{2", "\\", "a{99999999999}", "(?<=a+)b")

KEYWORDS = (
    ("has_child", ("a", "b", "&x", "", "a,b", "1")),
    ("max", ("", "a", "b", "a,b")),
    ("min", ("", "a", "b")),
    ("unique", ("", "a")),
    ("distinct", ("", "a")),
    ("parent", ("", "0", "1", "2", "9", "-1", "x")),
    ("name", ("", "a")),
)

COLL_OPERANDS = ([("key", "a")], [("all",)], [("trav",)], [("idx", 0)], [("key", "b")],
                 [("search", False, ".", "=", "a")])
COLL_FOLLOW = (None, ("idx", 0), ("all",), ("search", False, ".", "=", "a"), ("slice", 0, 2),
               ("kw", False, "unique", ""), ("kw", False, "max", ""), ("idx", -2))


def extended_vocabulary():
    v = list(pathgen.vocabulary())
    v += [("idx", i) for i in EXTRA_IDX]
    v += [("key", k) for k in EXTRA_KEYS]       # bare (implicit) element numbers incl. negative / out of range
    v += [("slice", a, b) for a, b in EXTRA_SLICES]
    for inv in (False, True):
        for attr in (".", "a"):
            for t in BAD_REGEX:
                v.append(("search", inv, attr, "=~", t))
    for name, params in KEYWORDS:
        for inv in (False, True):
            for p in params:
                v.append(("kw", inv, name, p))
    v.append(("anchor", "x"))
    return v


_CORE = []


def core_vocabulary():
    """The extended vocabulary with the search grid thinned to attributes {., a}, terms {a, 1} and one
    regular expression (used for the N<=5 documents and the exhaustive 2-segment product of the thorough tier)."""
    if not _CORE:
        for s in VOCAB:
            if s[0] == "search" and s[4] not in BAD_REGEX:
                if (s[3] == "=~" and s[4] != "a") or (s[3] != "=~" and s[4] == "b") or s[2] == "b":
                    continue
            _CORE.append(s)
    return _CORE


def collector_paths():
    out = []
    groups = []
    for p in COLL_OPERANDS:
        groups.append([("coll", "", p)])
    for op in "+-&":
        for p in COLL_OPERANDS:
            for q in COLL_OPERANDS:
                groups.append([("coll", "", p), ("coll", op, q)])
    for ops in (("+", "-"), ("-", "+"), ("+", "&"), ("&", "-")):
        for p, q, r in ((0, 4, 0), (1, 0, 4), (2, 1, 0), (3, 3, 3)):
            groups.append([("coll", "", COLL_OPERANDS[p]), ("coll", ops[0], COLL_OPERANDS[q]),
                           ("coll", ops[1], COLL_OPERANDS[r])])
    groups.append([("coll", "", [("key", "a")]), ("coll", "", [("key", "b")])])    # adjoining without operator
    groups.append([("coll", "+", [("key", "a")])])                                 # leading operator
    for g in groups:
        for f in COLL_FOLLOW:
            out.append(g + ([f] if f else []))
    for g in groups[:40]:
        out.append([("key", "a")] + g)
        out.append([("all",)] + g)
    return out


VOCAB = []
COLLS = []
DOCSETS = {}


def c15_sig(segs):
    out = []
    for s in segs:
        if s[0] == "kw":
            out.append("kw%s:%s(%s)" % ("!" if s[1] else "", s[2], "p" if s[3] else ""))
        elif s[0] == "coll":
            out.append("coll%s" % s[1])
        elif s[0] == "slice":
            out.append("slice" + ("S" if Q.int_literal(s[1]) is None or Q.int_literal(s[2]) is None else ""))
        elif s[0] == "search" and s[3] == "=~" and s[4] in BAD_REGEX:
            out.append("badregex" + ("." if s[2] == "." else "@"))
        else:
            out.append(path_sig([s]))
    return ".".join(out)


_PARSE_CACHE = {}


def parse_status(text):
    """'ok' | 'invalid' (the parser refuses it with YAMLPathException) | 'parser-crash:<Type>'"""
    st = _PARSE_CACHE.get(text)
    if st is None:
        def parse():
            from yamlpath import YAMLPath
            y = YAMLPath(text)
            return len(y.escaped), len(y.unescaped), str(y)
        r = call_real(parse)
        st = "ok" if r[0] == "ok" else ("invalid" if r[0] in ("yamlpath", "unmatched") else "parser-crash:" + r[1])
        if len(_PARSE_CACHE) < 400000:
            _PARSE_CACHE[text] = st
    return st


def collector_in_scope(segs, data):
    """The quantifier limits collectors to operands selecting scalars (on the nodes the prefix reaches)."""
    first = next((i for i, s in enumerate(segs) if s[0] == "coll"), None)
    if first is None:
        return True
    prefix = [s for s in segs[:first]]
    if any(s[0] == "kw" for s in prefix):
        return False
    try:
        heads = [r.node for r in Q.query(prefix, data) if not r.virtual] if data is not None else []
    except (Q.SpecRaises, Q.SpecUndefined, Q.SpecUnsupported):
        return True
    for s in segs[first:]:
        if s[0] != "coll":
            continue
        for n in heads:
            try:
                res = Q.query([tuple(x) for x in s[2]], n)
            except (Q.SpecRaises, Q.SpecUndefined, Q.SpecUnsupported):
                continue
            if any(x.virtual or not Q.is_scalar(x.node) for x in res):
                return False
    return True


def _crash_key(r):
    return "%s/%s@%s:%s" % (PROP, r[1], r[2], r[3][:90])


def check_case(data, segs, sep="."):
    """-> (findings [(kind, key, what, call, observed)], signature | None)"""
    text = pathgen.render(segs, sep)
    st = parse_status(text)
    if st != "ok":
        return [("oos", "not-a-valid-path" if st == "invalid" else "%s(C14)" % st, "", "parse", None)], None, text
    if any(s[0] == "coll" for s in segs) and not collector_in_scope(segs, data):
        return [("oos", "collector-operand-not-scalar", "", "scope", None)], None, text
    from yamlpath import Processor
    if _LOG[0] is None:
        _LOG[0] = gen.quiet_logger()
    proc = Processor(_LOG[0], data)
    findings = []
    outs = []
    calls = ("get_nodes", "exists", "get_nodes(mustexist=False)")
    if OPT_STRIDE[0] > 1 and (len(text) * 31 + sum(map(ord, text))) % OPT_STRIDE[0]:
        calls = calls[:2]            # quick tier: the optional-match query on every OPT_STRIDE-th path text
    for call in calls:
        if call == "get_nodes":
            r = call_real(lambda: len(list(proc.get_nodes(text, mustexist=True))))
        elif call == "exists":
            r = call_real(lambda: proc.exists(text))
        else:
            # the optional-match query may create nodes: it runs on its own copy of the document
            proc2 = Processor(_LOG[0], copy.deepcopy(data))
            r = call_real(lambda: len(list(proc2.get_nodes(text, mustexist=False))))
        outs.append(r)
        if r[0] == "crash":
            findings.append(("witness", _crash_key(r),
                             "%s() let %s escape (from %s: %s)" % (call, r[1], r[2], r[3]), call,
                             [r[1], r[2], r[3]]))
    g = outs[0]
    if g[0] == "ok":
        oc = "ok%d" % min(g[1], 3)
    elif g[0] == "unmatched":
        oc = "unmatched"
    elif g[0] == "yamlpath":
        oc = "yp:%s@%s" % (g[1], g[2])
    else:
        oc = "crash:%s@%s" % (g[1], g[2])
    sig = None
    if oc != "unmatched" or findings:
        sig = (c15_sig(segs), oc, outs[1][0])
    return findings, sig, text


_LOG = [None]
OPT_STRIDE = [1]


def _paths_for(unit, doc_index, seed):
    mode = unit["paths"]
    if mode == "one":
        for s in VOCAB:
            yield [s]
    elif mode == "one-core":
        for s in core_vocabulary():
            yield [s]
    elif mode == "two-all":
        core = core_vocabulary()
        for a in core:
            for b in core:
                yield [a, b]
    elif mode == "sample":
        rng = random.Random(seed * 1000003 + doc_index * 7919 + unit["len"])
        n = len(VOCAB)
        for _ in range(unit["k"]):
            yield [VOCAB[rng.randrange(n)] for _ in range(unit["len"])]
    elif mode == "coll-all":
        for p in COLLS:
            yield p
    elif mode == "coll-sample":
        rng = random.Random(seed * 1000003 + doc_index * 104729 + 17)
        for _ in range(unit["k"]):
            yield COLLS[rng.randrange(len(COLLS))]
    elif mode == "anchors":
        for p in anchor_paths():
            yield p
        for n in ("x", "y"):
            for inv in (False, True):
                yield [("kw", inv, "has_child", "&" + n)]
                yield [("all",), ("kw", inv, "has_child", "&" + n)]
            yield [("coll", "", [("anchor", n)]), ("coll", "+", [("all",)])]
    else:
        raise ValueError(mode)


def _random_case(rng):
    t = gen.random_tree(rng)
    path = []
    for _ in range(rng.randint(2, 5)):
        r = rng.random()
        if r < 0.25:
            path.append(("key", rng.choice(("a", "b", "c", 1, 2, "x.y"))))
        elif r < 0.35:
            path.append(("idx", rng.randint(-4, 4)))
        elif r < 0.45:
            path.append(("all",))
        elif r < 0.55 and (not path or path[-1] != ("trav",)):
            path.append(("trav",))
        else:
            path.append(VOCAB[rng.randrange(len(VOCAB))])
    return t, path


def _emit(col, f, inp):
    kind, key, what, call, observed = f
    if kind == "oos":
        col.out_of_scope(key)
        return
    known = col.witnesses.get(key)
    if known is None or len(known["inputs"]) < col.max_inputs_per_key:
        again = replay(inp)
        if again is None or again["key"] != key:
            raise RuntimeError("witness not reproducible on a fresh load: %r %r -> %r" % (key, inp, again))
    col.witness(key, what, inp, observed, "returns, or raises a YAMLPathException")


def _one_doc(col, text, shape, paths, idx):
    data = gen.load(text)
    plain0 = gen.plain(data)
    for n, segs in enumerate(paths):
        sep = "/" if (idx + n) % 4 == 3 else "."
        findings, sig, ptext = check_case(data, segs, sep)
        sample = None
        if sig is not None and len(col.samples) < col.max_samples and n % 37 == 0:
            sample = {"doc": text, "path": ptext, "outcome": sig[1]}
        col.case((shape, sig) if sig is not None else None, sample)
        for f in findings:
            _emit(col, f, {"doc": text, "path": ptext, "segments": _jsonable(segs), "call": f[3]})
        if any(s[0] in ("coll", "kw") for s in segs) and gen.plain(data) != plain0:
            col.out_of_scope("query-mutated-document(C09)")
            data = gen.load(text)


def _jsonable(segs):
    return [[s[0], s[1], _jsonable(s[2])] if s[0] == "coll" else list(s) for s in segs]


def _tuples(segs):
    return [("coll", s[1], _tuples(s[2])) if s[0] == "coll" else tuple(s) for s in segs]


def _work(units, seed):
    col = Collector()
    if _LOG[0] is None:
        _LOG[0] = gen.quiet_logger()
    for unit in units:
        if unit["docs"] == "random":
            for idx in range(unit["lo"], unit["hi"]):
                rng = random.Random(seed * 1000003 + idx)
                t, path = _random_case(rng)
                _one_doc(col, gen.to_yaml(t), doc_shape(t), [path], idx)
            continue
        if unit["docs"] == "anchors":
            for idx, text in enumerate(ANCHOR_DOCS):
                _one_doc(col, text, "anchors%d" % idx, list(_paths_for(unit, idx, seed)), idx)
            continue
        docs = DOCSETS[unit["docs"]]
        for idx in range(unit["lo"], min(unit["hi"], len(docs))):
            t = docs[idx]
            _one_doc(col, gen.to_yaml(t), doc_shape(t), _paths_for(unit, idx, seed), idx)
    return col.result(internal=True)


# ---------------------------------------------------------------------------
# raw text: every short string over the syntax alphabet that the parser ACCEPTS is a "syntactically valid
# YAML Path" too -- also the ones no segment generator would write ((a)x, [(a)], [a='b(c)']).  They are evaluated
# on three small documents; what is observed is, again, only the exception type.
# ---------------------------------------------------------------------------
RAW_ALPHA = "[]()'\"\\/.&*!=^$%<>~:, +-ab1"
RAW_DOCS = ("a: {b: 1, a: [1, {a: b}]}\nb: [a, b1, null]\n1: ab\n", "- {a: 1, b: [a]}\n- [b, 1]\n- a\n", "ab\n")
RAW_EXTRA = ("(a)x", "(a)x.y", "[(a)]", "a[(b)]", "[(a)b]", "[a='b(c)']", "[a=[b(c)]]", "a.(&a)", "/(&a)", "(a)'x'", "(a)b(c)",
             "[a=~/(/]", "[has_child(a)](b)", "a[has_child(,)]", "[has_child(,)]", "[!has_child(&)]", "(a)[0]", "((a)b)", "[.='(']", "[.=')']", "(a)+(b)x", "&a(b)x", "[&a](b)c")


# climb and create: a segment that is still iterating a hash / set / list yields a child, the path climbs back with
# parent() and then names something missing -- the optional-match query creates it IN the collection being iterated
CLIMB_DOCS = ("{a: {x: 1}, b: {x: 2}}\n", "!!set {a, b}\n", "{k: {a: {x: 1}, b: {x: 2}}, z: 1}\n", "[[1], [2]]\n", "{a: [1, 2], b: [3]}\n",
              "{a: &n {x: 1}, b: {x: 2}}\n", "!!set {&n a, b}\n",
              "[{x: 1}, {x: 2}]\n", "[&n {x: 1}, true]\n", "{k: [{x: 1}, {x: 2}], z: 1}\n")
CLIMB_HEADS = ("*", "[.^a]", "[.!^z]", "[a:b]", "a*", "**", "*.x", "**.x", "*[x=1]", "*[name()]", "[has_child(x)]", "[!has_child(q)]",
               "[max(x)]", "[!min(x)]", "&n", "k.*", "k[.!=q]", "k.**", "*[0]", "[.=~/./]", "(*)", "(a)+(b)", "*.*", "k.*.x")
CLIMB_TAILS = ("[parent()].c", "[parent(2)].c", "[parent()].c.d", "[parent()][5]", "[parent(2)][3]", "[parent()].a.q", "[parent(3)].c",
               "[parent()][&zz]", "[parent(2)][&zz]")      # (a missing anchored member of a list is created by appending to it)


def climb_paths():
    return [h + t for h in CLIMB_HEADS for t in CLIMB_TAILS]


def _raw_strings(lo, hi, nalpha):
    for i in range(lo, hi):
        k, n, out = 0, i, []
        # index -> string (shorter strings first), the same scheme as rtc/c14 part A
        while n >= nalpha ** k:
            n -= nalpha ** k
            k += 1
        for _ in range(k):
            n, d = divmod(n, nalpha)
            out.append(RAW_ALPHA[d])
        yield "".join(reversed(out))


def _work_raw(ranges, seed):
    from yamlpath import Processor, YAMLPath
    from yamlpath.exceptions import YAMLPathException
    col = Collector()
    log = gen.quiet_logger()
    docs = [gen.load(t) for t in RAW_DOCS]
    for (lo, hi) in ranges:
        if lo < 0:
            for text in climb_paths():
                for dtext in CLIMB_DOCS:
                  for dflt in ("D", None):                          # (what is created: a text, or the default null)
                    proc = Processor(log, gen.load(dtext))          # the query may create nodes: a fresh document each time
                    kw = {} if dflt is None else {"default_value": dflt}
                    r = call_real(lambda: len(list(proc.get_nodes(text, mustexist=False, **kw))))
                    if r[0] == "crash":
                        col.witness(_crash_key(r), "get_nodes(mustexist=False) let %s escape (from %s: %s): the path climbs back into a "
                                    "collection that is being iterated and creates a member there" % (r[1], r[2], r[3]),
                                    {"doc": dtext, "path": text, "call": "get_nodes(mustexist=False)", "raw": True, "climb": True},
                                    observed=[r[1], r[2], r[3]], expected="returns, or raises a YAMLPathException")
                    col.case(("climb", text.split("[parent")[0], text[text.index("[parent"):], dtext[:6], dflt, r[0] if r[0] != "ok" else "ok%d" % min(r[1], 2)))
        texts = RAW_EXTRA if lo < 0 else _raw_strings(lo, hi, len(RAW_ALPHA))
        for text in texts:
            try:
                segs = YAMLPath(text).escaped
                str(YAMLPath(text))
            except YAMLPathException:
                col.out_of_scope("raw-text-not-a-valid-path")
                continue
            except Exception:
                col.out_of_scope("raw-text-parser-crash(C14)")
                continue
            if not segs:
                continue
            sig = None
            for di, data in enumerate(docs):
                proc = Processor(log, data)
                r = call_real(lambda: len(list(proc.get_nodes(text, mustexist=True))))
                if r[0] == "crash":
                    col.witness(_crash_key(r), "get_nodes() let %s escape (from %s: %s) for a path text the parser accepts" % (r[1], r[2], r[3]),
                                {"doc": RAW_DOCS[di], "path": text, "call": "get_nodes", "raw": True}, observed=[r[1], r[2], r[3]],
                                expected="returns, or raises a YAMLPathException")
                sig = (tuple(str(t_) for t_, _ in segs), r[0] if r[0] != "ok" else "ok%d" % min(r[1], 2)) if sig is None else sig
            col.case(("raw", sig))
    return col.result(internal=True)


def _units(docs, n, per, **kw):
    return [dict(docs=docs, lo=i, hi=i + per, **kw) for i in range(0, n, per)]


def plan(tier):
    if tier == "quick":
        sets = {"small4": dict(max_nodes=4, max_depth=3, scalars=gen.SCALARS_SMALL),
                "full3": dict(max_nodes=3, max_depth=3, scalars=gen.SCALARS_FULL)}
        spec = [("small4", "one", {}, 12), ("full3", "one", {}, 12),
                ("small4", "sample", {"len": 2, "k": 30}, 60), ("small4", "coll-sample", {"k": 24}, 60),
                ("full3", "coll-sample", {"k": 24}, 60)]
        nrandom = 3000
        bounds = {"docs": "all trees N<=4 depth<=3 scalars {null,true,1,a}; all trees N<=3 over the 9-value pool; "
                          "11 anchor/alias/merge documents; 3000 seeded random trees N<=14",
                  "paths": "every 1-segment path of the extended vocabulary; 30 seeded 2-segment paths and 24 seeded "
                           "collector paths per document; anchor paths; one random 2-5 segment path per random tree"}
    elif tier == "thorough":
        sets = {"small5": dict(max_nodes=5, max_depth=3, scalars=gen.SCALARS_SMALL),
                "small4": dict(max_nodes=4, max_depth=3, scalars=gen.SCALARS_SMALL),
                "small3": dict(max_nodes=3, max_depth=3, scalars=gen.SCALARS_SMALL),
                "full3": dict(max_nodes=3, max_depth=3, scalars=gen.SCALARS_FULL)}
        spec = [("small5", "one-core", {}, 40), ("small4", "one", {}, 12), ("full3", "one", {}, 12),
                ("small3", "two-all", {}, 1), ("small4", "coll-all", {}, 12), ("full3", "coll-all", {}, 12),
                ("small4", "sample", {"len": 2, "k": 150}, 8), ("small4", "sample", {"len": 3, "k": 50}, 16)]
        nrandom = 10000
        bounds = {"docs": "all trees N<=5 depth<=3 scalars {null,true,1,a}; all trees N<=3 over the 9-value pool; "
                          "11 anchor/alias/merge documents; 10000 seeded random trees N<=14",
                  "paths": "every 1-segment path of the extended vocabulary on all N<=4 documents and of the core vocabulary "
                           "(search attributes {.,a}, terms {a,1}, one regex) on all N<=5 documents; every 2-segment path over "
                           "the core vocabulary on all N<=3 documents; every collector path on all N<=4 documents; 150 seeded "
                           "2-segment and 50 seeded 3-segment paths per N<=4 document; anchor paths; one random 2-5 segment "
                           "path per random tree"}
    elif tier == "mini":
        # smoke / mutation-testing tier (not a reporting tier)
        sets = {"small3": dict(max_nodes=3, max_depth=3, scalars=gen.SCALARS_SMALL)}
        spec = [("small3", "one", {}, 12), ("small3", "sample", {"len": 2, "k": 40}, 30),
                ("small3", "coll-sample", {"k": 30}, 30)]
        nrandom = 500
        bounds = {"docs": "all trees N<=3; anchor documents; 500 random trees",
                  "paths": "every 1-segment path; 40 seeded 2-segment and 30 collector paths per document"}
    else:
        raise ValueError("tier must be quick, thorough (or mini)")
    return sets, spec, nrandom, bounds


RULE = ("for every (document, syntactically valid path): list(Processor.get_nodes(path, mustexist=True)) and "
        "Processor.exists(path) return or raise a yamlpath.exceptions.YAMLPathException subclass; any other exception "
        "is a witness keyed by type@file:function:source-line.  Collectors only with operands selecting scalars; "
        "unparsable paths out of scope.")


def run(tier="quick", seed=0, jobs=None):
    global VOCAB, COLLS
    VOCAB = extended_vocabulary()
    COLLS = collector_paths()
    sets, spec, nrandom, bounds = plan(tier)
    OPT_STRIDE[0] = 3 if tier == "quick" else 2
    bounds["optional_mode"] = "get_nodes(mustexist=False) on a copy of the document for every %s path text" % (
        "3rd" if OPT_STRIDE[0] == 3 else "2nd")
    for name, kw in sets.items():
        DOCSETS[name] = gen.trees(**kw)
    units = []
    for name, mode, extra, per in spec:
        units += _units(name, len(DOCSETS[name]), per, paths=mode, **extra)
    units.append(dict(docs="anchors", paths="anchors", lo=0, hi=1))
    units += _units("random", nrandom, 500, paths="random")
    random.Random(seed).shuffle(units)
    frac = float(os.environ.get("VERIF_UNIT_FRACTION", "1"))      # smoke runs only; recorded in bounds
    if frac < 1:
        units = units[:max(1, int(len(units) * frac))]
        bounds["unit_fraction"] = frac
    col = Collector()
    for part in pmap_chunks(_work, units, jobs=jobs, chunk=1, extra=(seed,)):
        col.merge(part)
    # raw text stage
    L = {"quick": 4, "thorough": 5, "mini": 3}[tier]
    na = len(RAW_ALPHA)
    total = sum(na ** k for k in range(L + 1))
    step = max(2000, total // ((jobs or os.cpu_count() or 4) * 8))
    ranges = [(-1, 0)] + [(lo, min(total, lo + step)) for lo in range(0, total, step)]
    if frac < 1:
        ranges = ranges[:max(2, int(len(ranges) * frac))]
    for part in pmap_chunks(_work_raw, ranges, jobs=jobs, chunk=1, extra=(seed,)):
        col.merge(part)
    bounds["raw_text"] = ("every string of length <= %d over the %d-character syntax alphabet %r (%d strings) plus %d curated texts: "
                          "those the parser accepts are evaluated with get_nodes(mustexist=True) on %d fixed documents"
                          % (L, na, RAW_ALPHA, total, len(RAW_EXTRA), len(RAW_DOCS)))
    bounds["climb_and_create"] = ("%d paths = %d iterating heads x %d tails that climb back with parent() and name a missing key / index, evaluated "
                                  "with get_nodes(mustexist=False) on fresh copies of %d documents (hash, set, nested hash, list of lists, hash of lists, list of hashes, hash / set / list with an anchored member)"
                                  % (len(climb_paths()), len(CLIMB_HEADS), len(CLIMB_TAILS), len(CLIMB_DOCS)))
    bounds.update({"seed": seed, "vocabulary": len(VOCAB), "collector_paths": len(COLLS),
                   "documents": {k: len(v) for k, v in DOCSETS.items()},
                   "index_values": "[i] for i in -9,-4..4,9; bare keys 0,1,2,7,-1,-2,-4", "slice_bounds": "ints -9..9 incl. reversed/equal, and non-integer terms",
                   "notations": "dot (3 of 4 cases) and forward-slash (1 of 4), alternating"})
    return col.result(rule=RULE, exhaustive=frac >= 1, bounds=bounds, property=PROP, tier=tier)


def replay(inp):
    """Re-run ONE case on a fresh load; the witness dict if a non-library exception still escapes, else None."""
    global VOCAB
    data = gen.load(inp["doc"])
    from yamlpath import Processor
    text = inp["path"]
    if parse_status(text) != "ok":
        return None
    proc = Processor(gen.quiet_logger(), data)
    ALL = ("get_nodes", "exists", "get_nodes(mustexist=False)")
    calls = [inp["call"]] if inp.get("call") in ALL else list(ALL)
    for call in calls:
        if call == "get_nodes":
            r = call_real(lambda: len(list(proc.get_nodes(text, mustexist=True))))
        elif call == "exists":
            r = call_real(lambda: proc.exists(text))
        else:
            proc2 = Processor(gen.quiet_logger(), copy.deepcopy(data))
            r = call_real(lambda: len(list(proc2.get_nodes(text, mustexist=False))))
        if r[0] == "crash":
            return {"key": _crash_key(r), "what": "%s() let %s escape (from %s: %s)" % (call, r[1], r[2], r[3]),
                    "inputs": [inp], "observed": [r[1], r[2], r[3]],
                    "expected": "returns, or raises a YAMLPathException", "count": 1}
    return None


if __name__ == "__main__":
    if len(sys.argv) > 1 and sys.argv[1] == "replay":
        print(json.dumps(replay(json.loads(sys.argv[2])), indent=1, default=repr))
    else:
        tier = sys.argv[1] if len(sys.argv) > 1 else "quick"
        seed = int(sys.argv[2]) if len(sys.argv) > 2 else int(os.environ.get("VERIF_SEED", "0"))
        jobs = int(sys.argv[3]) if len(sys.argv) > 3 else None
        print(json.dumps(run(tier, seed, jobs), indent=1, default=repr))
