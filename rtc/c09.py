"""C09 - queries never modify the document; creation adds exactly the missing path.

Bounded stand-in, two parts.

(a) purity.  A deep snapshot of the document (structure, values with their types, key
    order, anchors via `.anchor.value`, merge sources, `id()` of every container and
    scalar object) is taken before and after

        exists(path)
        list(get_nodes(path, mustexist=True))
        list(get_nodes(path, mustexist=False))      only when exists(path) said True

    and must be identical - whether or not the call raised.  Paths: the C01 fragment
    plus keyword segments (1 and 2 segments, vocabulary of rtc.c02) and collector
    expressions `(p)`, `(p)+(q)`, `(p)-(q)`, `(p)&(q)`, chains of three, with a key
    prefix and with an index suffix, incl. documents whose collector operands are
    hashes sharing a pair.  Both notations.

(b) creation.  For every document, every straight-line key/index path that resolves to
    a node P (prefix of any length, incl. the root) and every tail of 1..3 key/index
    segments whose first segment does not exist under P, on a fresh load each:

        list(get_nodes(path, mustexist=False, default_value=V))      and
        set_value(path, V)

    Oracle (plain-data model written from the statement): a key tail makes a dict
    {k: rest}, an index tail makes a list of exactly index+1 elements whose last
    element is rest, the innermost rest is V; a list that exists is padded to exactly
    index+1.  The value of padding elements is not documented (README/docstrings are
    silent) - from-code, only the length is checked.  Afterwards (1) the path resolves:
    get_nodes(path, mustexist=True) returns exactly one node equal to V, (2) the part
    created under P equals the model, (3) with the created part removed the snapshot
    equals the snapshot taken before (same objects, values, order, anchors).
    Where the model cannot create - a key under a list or a scalar, an index under a
    map or a scalar - a YAMLPathException is expected and the snapshot must be
    unchanged.  A null P is judged leniently: either that, or the null is replaced by
    the created container and nothing else changes.  Sets as P are out of scope
    (a set member has no value to resolve to).

A call that raises something other than a YAMLPathException is C15's matter: it is
counted (out_of_scope "C15:...") and the C09 clauses are still checked; it becomes a C09
witness only when a clause of the statement fails as well (e.g. set_value on a document
that contains a set anywhere raises KeyError from Processor._update_node.recurse after
the tail has been created completely - observed, counted, not a C09 witness).

Witness keys:
  C09/purity/<api>/<what changed>/<plain | collector() | collector+& | collector-subtraction>
      what changed: key-removed, key-added, key-order-changed, seq-grew, seq-shrank, value-changed,
      anchor-changed, identity-changed, node-replaced, ...; for the optional-match call the additive
      changes are one class, missing-branch-created
  C09/creation/<api>/<clause>[:<detail>][/<kind of P>-<kind of the first missing segment>]
      clause: raised, does-not-resolve, created-part-differs[:padding-length], frame-changed,
      uncreatable-document-changed, uncreatable-no-error, null-prefix:{tail-not-created,null-overwritten}
"""
import itertools
import json
import random
import sys

from rtc import gen, pathgen, c02
from rtc.harness import Collector, pmap_chunks, stable_hash

# ---------------------------------------------------------------------------
# snapshot
# ---------------------------------------------------------------------------


def _anchor(n):
    a = getattr(n, "anchor", None)
    return getattr(a, "value", None) if a is not None else None


def snap(n):
    """Deep snapshot as nested tuples; position-faithful, identity-faithful."""
    from ruamel.yaml.comments import CommentedSet, TaggedScalar
    if isinstance(n, (CommentedSet, set)):
        return ("T", id(n), _anchor(n), tuple((type(m).__name__, repr(m), _anchor(m)) for m in n))
    if isinstance(n, dict):
        merge = tuple(id(src) for _, src in getattr(n, "merge", ()) or ())
        return ("M", id(n), _anchor(n), merge,
                tuple(((type(k).__name__, repr(k), _anchor(k)), snap(v)) for k, v in n.items()))
    if isinstance(n, list):
        return ("S", id(n), _anchor(n), tuple(snap(v) for v in n))
    if isinstance(n, TaggedScalar):
        return ("s", "TaggedScalar", repr(n.value), _anchor(n), id(n), str(getattr(n.tag, "value", n.tag)))
    return ("s", type(n).__name__, repr(n), _anchor(n), id(n))


def diff_class(a, b):
    """First difference between two snapshots as a short class name (None when equal)."""
    if a == b:
        return None
    if a[0] != b[0]:
        return "node-replaced"
    k = a[0]
    if k == "s":
        if a[1:3] != b[1:3]:
            return "value-changed"
        if a[3] != b[3]:
            return "anchor-changed"
        return "identity-changed"
    if a[2] != b[2]:
        return "anchor-changed"
    if k == "T":
        if a[3] == b[3]:
            return "identity-changed"
        if len(b[3]) > len(a[3]) and set(a[3]) <= set(b[3]):
            return "set-member-added"
        return "set-members-changed"
    if k == "M":
        ka, kb = [i[0] for i in a[4]], [i[0] for i in b[4]]
        if ka != kb:
            sa, sb = set(ka), set(kb)
            if sa - sb and not sb - sa:
                return "key-removed"
            if sb - sa and not sa - sb:
                return "key-added"
            if sa == sb:
                return "key-order-changed"
            return "keys-changed"
        for (_, va), (_, vb) in zip(a[4], b[4]):
            d = diff_class(va, vb)
            if d:
                return d
        if a[3] != b[3]:
            return "merge-changed"
        return "identity-changed"
    if k == "S":
        if len(a[3]) != len(b[3]):
            return "seq-grew" if len(b[3]) > len(a[3]) else "seq-shrank"
        for va, vb in zip(a[3], b[3]):
            d = diff_class(va, vb)
            if d:
                return d
        return "identity-changed"
    return "changed"      # pragma: no cover


def collector_class(path_text):
    """Which collector operators a path uses (for the witness key)."""
    from yamlpath import YAMLPath
    from yamlpath.enums import PathSegmentTypes
    ops = []
    try:
        for typ, attrs in YAMLPath(path_text).escaped:
            if typ is PathSegmentTypes.COLLECTOR:
                name = getattr(getattr(attrs, "operation", None), "name", "NONE")
                ops.append({"NONE": "()", "ADDITION": "+", "SUBTRACTION": "-", "INTERSECTION": "&"}.get(name, name))
    except Exception:
        return "unparsable"
    if not ops:
        return "plain"
    if "-" in ops:
        return "collector-subtraction"        # whatever else the expression contains
    rest = sorted(set(ops) - {"()"})
    return "collector" + "".join(rest) if rest else "collector()"


# ---------------------------------------------------------------------------
# (a) purity
# ---------------------------------------------------------------------------
COLL_INNER = (
    [("key", "a")], [("key", "b")], [("key", "x.y")], [("all",)], [("trav",)], [("idx", 0)],
    [("search", False, ".", "=", "a")], [("search", False, "a", "=", "1")], [("key", "a"), ("key", "b")],
)


def collector_paths(rng=None, n_chain=40):
    """Collector expressions over COLL_INNER as segment lists."""
    out = []
    for p in COLL_INNER:
        out.append([("coll", "", p)])
    for p, q in itertools.product(COLL_INNER, repeat=2):
        for op in "+-&":
            out.append([("coll", "", p), ("coll", op, q)])
    fixed = [
        [("key", "a"), ("coll", "", [("all",)]), ("coll", "-", [("key", "b")])],
        [("key", "a"), ("coll", "", [("key", "a")]), ("coll", "-", [("key", "b")])],
        [("coll", "", [("all",)]), ("coll", "-", [("key", "a")]), ("idx", 0)],
        [("coll", "", [("trav",)]), ("coll", "-", [("key", "a")]), ("coll", "+", [("key", "b")])],
        [("coll", "", [("all",)]), ("coll", "&", [("key", "a")]), ("coll", "-", [("key", "b")])],
        [("all",), ("coll", "", [("key", "a")]), ("coll", "-", [("key", "b")])],
        [("idx", 0), ("coll", "", [("all",)]), ("coll", "-", [("key", "a")])],
        # the SAME hash collected twice, then trimmed: the copy-before-trim must cover every occurrence
        [("coll", "", [("key", "a")]), ("coll", "+", [("key", "a")]), ("coll", "-", [("key", "a"), ("key", "b")])],
        [("coll", "", [("all",)]), ("coll", "+", [("key", "a")]), ("coll", "-", [("key", "a"), ("key", "b")])],
        [("coll", "", [("key", "a")]), ("coll", "+", [("all",)]), ("coll", "-", [("key", "a"), ("key", "x.y")])],
    ]
    out += fixed
    if rng is not None:
        for _ in range(n_chain):
            a, b, c = (rng.choice(COLL_INNER) for _ in range(3))
            out.append([("coll", "", a), ("coll", rng.choice("+-&"), b), ("coll", rng.choice("+-&"), c)])
    return out


COLLECTOR_HASH_DOCS = (
    {"a": {"b": 1}, "b": 1},
    {"a": {"b": 1, "x.y": 2}, "b": 1},
    {"a": {"x.y": 1, "b": 2}, "b": {"x.y": 1}},
    {"a": {"a": 1}, "b": {"a": 1}},
    [{"a": 1, "b": 2}, {"a": 1}],
    [{"a": {"b": 1}}, {"b": 1}],
    {"a": [{"b": 1}], "b": [{"b": 1}]},
    {"a": {"a": {"b": 1}}, "b": 1},
    {"a": {"b": None}, "b": None},
    {"x.y": {"a": "a"}, "a": "a", "b": {"a": "a"}},
)

APIS = ("exists", "required", "optional-existing")


def purity_case(data, s0, path_text, log, known_existing=False):
    """Run the three read calls.  -> (failures [(key, observed)], info, mutated?)"""
    from yamlpath import Processor
    from yamlpath.exceptions import YAMLPathException
    failures, info = [], {"exists": None, "n": 0, "exc": []}
    cclass = None

    def after(api):
        nonlocal cclass
        s1 = snap(data)
        if s1 == s0:
            return False
        if cclass is None:
            cclass = collector_class(path_text)
        d = diff_class(s0, s1)
        if api == "optional-existing" and known_existing and not found:
            d = "existing-node-not-matched-then-created"   # nothing is missing anywhere: the one named node exists
        elif api == "optional-existing" and d in ("key-added", "seq-grew", "set-member-added"):
            d = "missing-branch-created"       # the path matches somewhere, a sibling branch lacked it
        failures.append(("C09/purity/%s/%s/%s" % (api, d, cclass),
                         "after %s: %r" % (api, gen.plain(data))))
        return True

    proc = Processor(log, data)
    found = None
    try:
        found = proc.exists(path_text)
        info["exists"] = found
    except YAMLPathException as e:
        info["exc"].append("exists:" + type(e).__name__)
    except Exception as e:                                   # C15's business; purity still applies
        info["exc"].append("exists:crash:" + type(e).__name__)
    if after("exists"):
        return failures, info
    try:
        info["n"] = sum(1 for _ in proc.get_nodes(path_text, mustexist=True))
    except YAMLPathException as e:
        info["exc"].append("required:" + type(e).__name__)
    except Exception as e:
        info["exc"].append("required:crash:" + type(e).__name__)
    if after("required"):
        return failures, info
    if found or known_existing:      # known_existing: the path names an existing node by construction
        try:
            info["nopt"] = sum(1 for _ in proc.get_nodes(path_text, mustexist=False))
        except YAMLPathException as e:
            info["exc"].append("optional:" + type(e).__name__)
        except Exception as e:
            info["exc"].append("optional:crash:" + type(e).__name__)
        after("optional-existing")
    return failures, info


PURITY_WHAT = "a read call (exists / required-match query / optional-match query on an existing path) changed the document"
PURITY_EXPECT = "snapshot (structure, values, key order, anchors, object identities) identical before and after"


def _purity_paths(item):
    v = c02._vocab(item["alphabet"], item.get("anchors", ()))
    rng = random.Random(item["seed"])
    mode = item["mode"]
    for s in v:
        yield [s]
    if mode == "all2":
        for p in itertools.product(v, repeat=2):
            yield list(p)
    else:
        for _ in range(item["n"]):
            yield [rng.choice(v) for _ in range(rng.choice((2, 2, 3)))]
    for p in collector_paths(rng, item.get("chains", 20)):
        yield p


def _purity_texts(item):
    """-> (path shape, notation, path text): generated segment lists in both notations, then the item's literal texts"""
    for segs in _purity_paths(item):
        pshape = _pshape(segs)
        for sep in (".", "/"):
            yield pshape, sep, pathgen.render(segs, sep)
    for ptext in item.get("texts", ()):
        yield "literal:" + ptext, "/" if ptext.startswith("/") else ".", ptext


# Anchor names holding a character the path notation escapes (legal YAML, e.g. &build.v1): the path the library itself
# reports for such a match spells the name with the escape (r[&b\.v]); both spellings name the existing node.
ESC_ANCHOR_DOCS = (
    ("{r: [&b.v {a: 1}, {a: 2}], c: *b.v}", ("r[&b.v]", "r[&b\\.v]", "r[&b\\.v].a", "/r[&b.v]", "/r[&b.v]/a", "**[&b\\.v]")),
    ("[&b.v a, b]", ("&b\\.v", "[&b.v]", "[&b\\.v]", "/&b.v", "/[&b\\.v]")),
    ("{k: &x/y [1], j: *x/y}", ("[&x/y]", "/[&x\\/y]", "/&x\\/y", "[&x/y][0]")),
    ("[[&b.v 1, 2], [3]]", ("[0][&b\\.v]", "[0][&b.v]", "/[0][&b.v]", "*[&b\\.v]")),
)


def _work_purity(chunk):
    col = Collector()
    log = gen.quiet_logger()
    for item in chunk:
        text = item["yaml"]
        data = gen.load(text)
        if data is None:
            col.case()
            continue
        s0 = snap(data)
        shape = c02.doc_shape(data)
        for pshape, sep, ptext in _purity_texts(item):
            known = pshape.startswith("literal:")
            failures, info = purity_case(data, s0, ptext, log, known)
            if failures:
                # the loaded copy is spoiled: confirm on a fresh load (= replay) and go on with a fresh copy
                data = gen.load(text)
                s0 = snap(data)
                fresh, _ = purity_case(data, s0, ptext, log, known)
                for f in failures:
                    if f[0] not in {g[0] for g in fresh}:
                        col.out_of_scope("not-reproduced-on-fresh-load:" + f[0])
                failures = fresh
                if fresh:
                    data = gen.load(text)
                    s0 = snap(data)
            nontrivial = bool(info["n"] or info["exists"] or [e for e in info["exc"] if "Unmatched" not in e])
            sig = stable_hash([shape, pshape, sep, info["exists"], min(info["n"], 3), sorted(info["exc"]),
                               sorted(f[0] for f in failures)]) if nontrivial else None
            col.case(sig, {"yaml": text, "path": ptext, "exists": info["exists"], "results": info["n"]}
                     if nontrivial and info["n"] else None)
            for e in info["exc"]:
                if "crash" in e:
                    col.out_of_scope("C15:" + e)
            for key, observed in failures:
                col.witness(key, PURITY_WHAT, {"part": "purity", "yaml": text, "path": ptext, "key": key, "known_existing": known},
                            observed, PURITY_EXPECT)
    return col.result(internal=True)


def _pshape(segs):
    out = []
    for s in segs:
        if s[0] == "coll":
            out.append("(%s%s)" % (s[1], _pshape(s[2])))
        else:
            out.append(c02.path_shape([s]))
    return "/".join(out)


# ---------------------------------------------------------------------------
# (b) creation
# ---------------------------------------------------------------------------
class _Pad:
    def __repr__(self):
        return "<pad>"


PAD = _Pad()
VALUES = ("v", 7)
NEW_KEYS = ("n", "k e")
REST = (("key", "n"), ("key", "x.y"), ("idx", 0), ("idx", 2))


def model_created(rest, value):
    """What the statement says must appear for the remaining tail segments."""
    if not rest:
        return value
    seg = rest[0]
    inner = model_created(rest[1:], value)
    if seg[0] == "key":
        return {seg[1]: inner}
    return [PAD] * seg[1] + [inner]


def model_match(model, got):
    if model is PAD:
        return True
    if isinstance(model, dict):
        return isinstance(got, dict) and not isinstance(got, gen.SetT) and list(got.keys()) == list(model.keys()) and \
            all(model_match(model[k], got[k]) for k in model)
    if isinstance(model, list):
        return isinstance(got, list) and not isinstance(got, gen.SetT) and len(got) == len(model) and \
            all(model_match(m, g) for m, g in zip(model, got))
    return type(model) is type(got) and model == got


def node_kind(t):
    if isinstance(t, gen.SetT):
        return "set"
    if isinstance(t, dict):
        return "map"
    if isinstance(t, (list, tuple)):
        return "seq"
    return "null" if t is None else "scalar"


def prefixes(t, segs=()):
    """Every node of a plain-data template with its straight-line key/index path."""
    yield list(segs), t
    if isinstance(t, gen.SetT):
        return
    if isinstance(t, dict):
        for k, v in t.items():
            yield from prefixes(v, tuple(segs) + (("key", k),))
    elif isinstance(t, (list, tuple)):
        for i, v in enumerate(t):
            yield from prefixes(v, tuple(segs) + (("idx", i),))


def first_segments(t):
    """(segment, creatable?) for the first missing tail segment under template node t."""
    k = node_kind(t)
    if k == "map":
        present = {str(x) for x in t}
        return [(("key", n), True) for n in NEW_KEYS if n not in present] + [(("idx", 0), False)]
    if k == "seq":
        return [(("idx", len(t)), True), (("idx", len(t) + 2), True), (("key", "n"), False)]
    if k in ("scalar", "null"):
        return [(("key", "n"), False), (("idx", 0), False)]
    return []


def tails():
    out = [()]
    for n in (1, 2):
        out += list(itertools.product(REST, repeat=n))
    return out


def _navigate(data, prefix):
    node = data
    for kind_, ref in prefix:
        node = node[ref]
    return node


def _strip(s, cid, first, old_len):
    """Snapshot `s` with the created part removed from every occurrence of container `cid`."""
    k = s[0]
    if k == "M":
        items = s[4]
        if s[1] == cid and first[0] == "key":
            items = tuple(i for i in items if i[0][1] != repr(first[1]) and i[0][1] != repr(str(first[1])))
        return (k, s[1], s[2], s[3], tuple((kk, _strip(v, cid, first, old_len)) for kk, v in items))
    if k == "S":
        items = s[3]
        if s[1] == cid and first[0] == "idx":
            items = items[:old_len]
        return (k, s[1], s[2], tuple(_strip(v, cid, first, old_len) for v in items))
    return s


CREATION_WHAT = {
    "raised": "creating a missing key/index tail raised",
    "does-not-resolve": "after creation the path does not resolve to exactly the supplied value",
    "created-part-differs": "what was created under the existing prefix is not exactly the missing tail",
    "frame-changed": "a node that existed before the creation was changed",
    "uncreatable-document-changed": "a tail that cannot be created (key under list/scalar, index under map/scalar) changed the document",
    "uncreatable-no-error": "a tail that cannot be created was silently ignored (no YAMLPathException, path does not resolve)",
    "null-prefix": "a missing tail under a null node: neither refused nor created",
}


def creation_case(text, prefix, first, rest, creatable, pkind, api, value, sep):
    """One creation on a fresh load.  -> (failures [(key, what, observed, expected)], info)"""
    from yamlpath import Processor
    from yamlpath.exceptions import YAMLPathException
    log = gen.quiet_logger()
    data = gen.load(text)
    segs = list(prefix) + [first] + list(rest)
    ptext = pathgen.render(segs, sep)
    s0 = snap(data)
    plain0 = gen.plain(data)
    parent = _navigate(data, prefix)
    cid = id(parent)
    old_len = len(parent) if isinstance(parent, list) else 0
    tail_kinds = ".".join(s[0] for s in [first] + list(rest))
    where = "%s-%s" % (pkind, first[0])
    failures = []
    info = {"exc": None, "outcome": None}

    def fail(clause, detail, observed, expected, located=True):
        failures.append(("C09/creation/%s/%s%s%s" % (api, clause, ":" + detail if detail else "", "/" + where if located else ""),
                         CREATION_WHAT[clause], observed, expected))

    exc = None
    proc = Processor(log, data)
    try:
        if api == "get_nodes":
            list(proc.get_nodes(ptext, mustexist=False, default_value=value))
        else:
            proc.set_value(ptext, value)
    except YAMLPathException as e:
        exc = ("yp", type(e).__name__, str(e)[:100])
    except Exception as e:
        exc = ("other", type(e).__name__ + "@" + _innermost_repo_frame(e), str(e)[:100])
    info["exc"] = exc and exc[1]
    s1 = snap(data)
    changed = diff_class(s0, s1)
    after_plain = gen.plain(data)

    if not creatable and pkind != "null":
        if changed:
            info["outcome"] = "uncreatable-changed"
            fail("uncreatable-document-changed", changed, "%s -> %r (%s)" % (ptext, after_plain, exc and exc[1]),
                 "YAMLPathException and the document unchanged: %r" % (plain0,))
        elif exc is None:
            info["outcome"] = "uncreatable-silent"
            fail("uncreatable-no-error", "", "%s returned normally, document unchanged" % ptext, "YAMLPathException")
        else:
            info["outcome"] = "refused" if exc[0] == "yp" else "refused-with-" + exc[1]
        return failures, info

    if pkind == "null":
        # lenient: refused and unchanged, or the null gave way to the created container and the path resolves
        if exc is not None and not changed:
            info["outcome"] = "null-refused" if exc[0] == "yp" else "null-refused-with-" + exc[1]
            return failures, info
        model = model_created([first] + list(rest), value)
        try:
            got = gen.plain(_navigate(data, prefix))
        except Exception:
            got = "<prefix gone>"
        resolves = _resolves(data, ptext, value, log)
        if exc is None and model_match(model, got) and resolves is True:
            info["outcome"] = "null-replaced-by-tail"
            return failures, info
        info["outcome"] = "null-other"
        fail("null-prefix", "tail-not-created" if not changed else "null-overwritten",
             "%s -> %r (%s); resolves: %s" % (ptext, after_plain, exc and exc[1], resolves),
             "YAMLPathException and no change, or the null replaced by %r" % (model,), located=False)
        return failures, info

    # creatable
    resolves = _resolves(data, ptext, value, log)
    if resolves is not True:
        fail("does-not-resolve", "", "%s -> %s; document now %r" % (ptext, resolves, after_plain),
             "get_nodes(path, mustexist=True) returns exactly one node equal to %r" % (value,))
    # created part against the model
    model_rest = model_created(list(rest), value)
    try:
        cont = _navigate(data, prefix)
    except (KeyError, IndexError, TypeError):
        cont = None
    if cont is None:
        fail("frame-changed", "", "prefix no longer resolves: %s -> %r, before %r" % (ptext, after_plain, plain0),
             "the existing prefix still leads to the same container")
    elif cont is not parent:
        fail("frame-changed", "", "%s: container at the prefix is a new object" % ptext,
             "same container object, extended")
    elif first[0] == "key":
        newkeys = [k for k in cont.keys() if str(k) == str(first[1])]
        if len(newkeys) != 1 or not model_match(model_rest, gen.plain(cont[newkeys[0]])):
            fail("created-part-differs", "", "%s -> under the prefix: %r" % (ptext, gen.plain(cont)),
                 "new key %r holding %r" % (first[1], model_rest))
    else:
        want_len = first[1] + 1
        if len(cont) != want_len:
            fail("created-part-differs", "padding-length", "%s -> list of %d elements: %r" % (ptext, len(cont), gen.plain(cont)),
                 "list of exactly %d elements (had %d)" % (want_len, old_len))
        elif not model_match(model_rest, gen.plain(cont[first[1]])):
            fail("created-part-differs", "", "%s -> element %d is %r" % (ptext, first[1], gen.plain(cont[first[1]])),
                 "%r" % (model_rest,))
        else:
            # what the padding elements hold is undocumented, but they are not the created node: a padding
            # element that IS the created container makes sibling paths exist that nobody asked for
            created = cont[first[1]]
            pads = [cont[i] for i in range(old_len, first[1])]
            if isinstance(created, (dict, list)) and any(p_ is created for p_ in pads):
                fail("created-part-differs", "padding-shares-the-created-node",
                     "%s -> %r: padding element and created element are ONE object" % (ptext, gen.plain(cont)),
                     "only the requested index leads to the created tail")
    # frame: with the created part removed nothing differs from before
    d = diff_class(s0, _strip(s1, cid, first, old_len))
    if d:
        fail("frame-changed", "", "%s: %s -> %r, before %r" % (d, ptext, after_plain, plain0),
             "apart from the created tail: same objects, values, order")
    if exc is not None:
        if failures or exc[0] == "yp":
            # refused, or failed half-way
            failures.insert(0, ("C09/creation/%s/raised:%s" % (api, exc[1]), CREATION_WHAT["raised"],
                                "%s -> %s: %s; document now %r" % (ptext, exc[1], exc[2], after_plain),
                                "tail created, path resolves to %r" % (value,)))
            info["outcome"] = "raised"
        else:
            # every post-condition of the statement holds; the stray exception is C15's / C03's matter
            info["outcome"] = "created-then-raised-" + exc[1]
        return failures, info
    info["outcome"] = "created" if not failures else "created-wrong"
    return failures, info


def _innermost_repo_frame(e):
    import traceback
    fr = [f for f in traceback.extract_tb(e.__traceback__) if "/yamlpath/" in f.filename]
    return "%s:%s" % (fr[-1].filename.rsplit("/", 1)[-1], fr[-1].name) if fr else "outside-yamlpath"


def _resolves(data, ptext, value, log):
    from yamlpath import Processor
    try:
        got = list(Processor(log, data).get_nodes(ptext, mustexist=True))
    except Exception as e:
        return "%s: %s" % (type(e).__name__, str(e)[:80])
    res = [gen.plain(nc.node) for nc in got]
    if len(res) == 1 and type(res[0]) is type(value) and res[0] == value:
        return True
    return "resolves to %r" % (res,)


def _creation_cases(text, template, rng, per_doc):
    """All (or a sample of) creation cases of one document."""
    cases = []
    for prefix, node in prefixes(template):
        pk = node_kind(node)
        if pk == "set":
            cases.append(("oos", "set-as-prefix"))
            continue
        if prefix and any(isinstance(r, str) and c02.oos_key(r) for _, r in prefix):
            continue
        for first, creatable in first_segments(node):
            for rest in tails():
                for api in ("get_nodes", "set_value"):
                    for sep in (".", "/"):
                        for value in VALUES:
                            cases.append((prefix, first, rest, creatable, pk, api, value, sep))
    if per_doc and len(cases) > per_doc:
        keep = [c for c in cases if c[0] == "oos"]
        real = [c for c in cases if c[0] != "oos"]
        cases = keep + rng.sample(real, per_doc)
    return cases


def _work_creation(chunk):
    col = Collector()
    for item in chunk:
        text, template = item["yaml"], item["template"]
        if template is None:
            col.out_of_scope("null-document")
            continue
        rng = random.Random(item["seed"])
        shape = None
        for case in _creation_cases(text, template, rng, item.get("per_doc")):
            if case[0] == "oos":
                col.out_of_scope(case[1])
                continue
            prefix, first, rest, creatable, pk, api, value, sep = case
            failures, info = creation_case(text, prefix, first, rest, creatable, pk, api, value, sep)
            if shape is None:
                shape = c02.doc_shape(gen.load(text))
            sig = stable_hash([shape, [s[0] for s in prefix], first[0], first[1] if first[0] == "idx" else "", [s[0] for s in rest],
                               api, sep, type(value).__name__, info["outcome"], info["exc"], sorted(f[0] for f in failures)])
            ptext = pathgen.render(list(prefix) + [first] + list(rest), sep)
            col.case(sig, {"yaml": text, "path": ptext, "api": api, "value": value, "outcome": info["outcome"]}
                     if info["outcome"] == "created" else None)
            if info["outcome"] and ("refused-with-" in info["outcome"] or "created-then-raised-" in info["outcome"]):
                col.out_of_scope("C15:creation-%s-%s" % (api, info["outcome"]))
            for key, what, observed, expected in failures:
                col.witness(key, what, {"part": "creation", "yaml": text, "prefix": [list(s) for s in prefix],
                                        "first": list(first), "rest": [list(s) for s in rest], "creatable": creatable,
                                        "pkind": pk, "api": api, "value": value, "sep": sep, "path": ptext, "key": key},
                            observed, expected)
    return col.result(internal=True)


# ---------------------------------------------------------------------------
# driving
# ---------------------------------------------------------------------------
QUICK = dict(small_paths=150, big_docs=250, big_paths=60, random_docs=400, random_paths=40, chains=10,
             creation_core_per_doc=120, creation_big_docs=300, creation_random_docs=300, creation_random_per_doc=60)
THOROUGH = dict(small_paths=None, big_docs=None, big_paths=400, random_docs=4000, random_paths=100, chains=40,
                creation_core_per_doc=None, creation_big_docs=None, creation_random_docs=4000, creation_random_per_doc=200)

CREATION_EXTRA_DOCS = (
    "{a: &x {b: 1}, c: *x}",
    "[&x [1], *x]",
    "{a: &x 1, b: *x, c: [*x]}",
    "{base: &b {a: 1}, d: {<<: *b, c: 2}}",
)


def _items(tier, seed):
    quick = tier == "quick"
    cfg = QUICK if quick else THOROUGH
    rng = random.Random(seed)
    purity, creation = [], []

    def addp(t, mode, n=0, yaml=None, alphabet=c02.KEYS_DEFAULT, anchors=()):
        purity.append({"yaml": yaml if yaml is not None else gen.to_yaml(t), "alphabet": tuple(alphabet),
                       "anchors": tuple(anchors), "mode": mode, "n": n, "chains": cfg["chains"],
                       "seed": rng.randrange(1 << 30)})

    def addc(t, per_doc=None, yaml=None):
        creation.append({"yaml": yaml if yaml is not None else gen.to_yaml(t), "template": t, "per_doc": per_doc,
                         "seed": rng.randrange(1 << 30)})

    small = gen.trees(3, 2, keys=c02.KEYS_DEFAULT, scalars=c02.SCALARS_CORE)
    big = [t for t in gen.trees(4, 3, keys=c02.KEYS_DEFAULT, scalars=c02.SCALARS_BIG) if gen.size(t) == 4]
    # (a) purity
    for t in small:
        if quick:
            addp(t, "sample", n=cfg["small_paths"])
        else:
            addp(t, "all2")
    for t in (rng.sample(big, cfg["big_docs"]) if quick else big):
        addp(t, "sample", n=cfg["big_paths"])
    for t in COLLECTOR_HASH_DOCS:
        addp(t, "all2" if not quick else "sample", n=300)
    for y in c02.ANCHOR_DOCS:
        addp(None, "all2" if not quick else "sample", n=300, yaml=y, alphabet=("a", "b", "c", "k", "zz"),
             anchors=c02.ANCHOR_NAMES)
    for y, texts in ESC_ANCHOR_DOCS:
        addp(None, "sample", n=0, yaml=y, alphabet=("a", "r"), anchors=())
        purity[-1]["texts"] = texts
    pool = c02.KEYS_DEFAULT + ("c", 2, "k e", "a/b")
    for _ in range(cfg["random_docs"]):
        t = gen.random_tree(rng, max_nodes=14, max_depth=5, keys=tuple(rng.sample(pool, 5)), scalars=gen.SCALARS_FULL)
        if isinstance(t, (dict, list)):
            alphabet = list(c02.doc_keys(t))
            for extra in ("a", "b"):
                if extra not in alphabet:
                    alphabet.append(extra)
            addp(t, "sample", n=cfg["random_paths"], alphabet=alphabet)
    # (b) creation
    for t in small:
        addc(t, cfg["creation_core_per_doc"])
    for t in (rng.sample(big, cfg["creation_big_docs"]) if quick else big):
        addc(t, cfg["creation_core_per_doc"] if quick else 400)
    for y in CREATION_EXTRA_DOCS:
        addc(gen.plain(gen.load(y)), None, yaml=y)
    for _ in range(cfg["creation_random_docs"]):
        t = gen.random_tree(rng, max_nodes=12, max_depth=4, keys=("a", "b", "c", 1, "x.y", "a/b"), scalars=gen.SCALARS_FULL)
        addc(t, cfg["creation_random_per_doc"])
    return purity, creation


def bounds(tier):
    cfg = QUICK if tier == "quick" else THOROUGH
    return {
        "purity_docs": "trees(N<=3,D<=2, keys a b 1 x.y, scalars null 1 a) + %s 4-node trees(D<=3, scalars null a) + %d hash-operand "
                       "documents + %d anchor/alias/merge documents + %d random trees (<=14 nodes)" % (
                           cfg["big_docs"] or "all", len(COLLECTOR_HASH_DOCS), len(c02.ANCHOR_DOCS), cfg["random_docs"]),
        "purity_paths": "all 1-segment paths of the C02 vocabulary; 2-segment: %s; 3-segment: sampled; collectors: (p), (p)+(q), "
                        "(p)-(q), (p)&(q) for all p,q in %d inner paths, 7 prefixed/suffixed forms, %d random 3-chains; both notations"
                        % ("all on N<=3, sampled elsewhere" if tier != "quick" else "sampled", len(COLL_INNER), cfg["chains"]),
        "purity_apis": list(APIS),
        "creation_docs": "same trees (+ %d alias/merge documents, %d random trees <=12 nodes)" % (
            len(CREATION_EXTRA_DOCS), cfg["creation_random_docs"]),
        "creation_paths": "every existing straight-line prefix (root included) x first missing segment (map: keys n, 'k e', "
                          "[0](uncreatable); list: [len], [len+2], key n (uncreatable); scalar/null: key n, [0]) x tails of 0..2 more "
                          "segments from {n, x.y, [0], [2]} x {get_nodes(default_value), set_value} x {dot, fslash} x values {'v', 7}"
                          + ("; %s cases sampled per document" % cfg["creation_core_per_doc"] if tier == "quick" else
                             "; exhaustive on N<=3, 400 per 4-node document"),
        "padding_value": "undocumented -> from-code, only the length is checked",
    }


RULE = ("purity: nontrivial = exists() true or >=1 result or an exception other than 'unmatched'; distinct = hash(document shape, "
        "segment-kind sequence incl. collector structure, notation, exists, min(#results,3), exceptions, failing keys).  "
        "creation: every case counts; distinct = hash(document shape, prefix kinds, first-segment kind/index, tail kinds, api, "
        "notation, value type, outcome, exception, failing keys)")


def run(tier="quick", seed=0, jobs=None):
    purity, creation = _items(tier, seed)
    random.Random(seed).shuffle(purity)
    random.Random(seed).shuffle(creation)
    col = Collector(max_samples=8)
    for part in pmap_chunks(_work_creation, creation, jobs=jobs, chunk=6):
        col.merge(part)
    n_creation = col.evaluations
    col.max_samples = 16
    for part in pmap_chunks(_work_purity, purity, jobs=jobs, chunk=6):
        col.merge(part)
    return col.result(rule=RULE, exhaustive=(tier != "quick"), bounds=bounds(tier), tier=tier, seed=seed,
                      purity_documents=len(purity), creation_documents=len(creation),
                      creation_evaluations=n_creation, purity_evaluations=col.evaluations - n_creation)


def replay(inp):
    """Re-run one witness input on the current tree; the witness dict if it still fails, else None."""
    if inp.get("part") == "creation":
        failures, _ = creation_case(inp["yaml"], [tuple(s) for s in inp["prefix"]], tuple(inp["first"]),
                                    [tuple(s) for s in inp["rest"]], inp["creatable"], inp["pkind"], inp["api"],
                                    inp["value"], inp["sep"])
        fl = [(k, w, o, e) for k, w, o, e in failures]
    else:
        data = gen.load(inp["yaml"])
        if data is None:
            return None
        failures, _ = purity_case(data, snap(data), inp["path"], gen.quiet_logger(), inp.get("known_existing", False))
        fl = [(k, PURITY_WHAT, o, PURITY_EXPECT) for k, o in failures]
    if not fl:
        return None
    want = inp.get("key")
    pick = next((f for f in fl if f[0] == want), fl[0])
    return {"key": pick[0], "what": pick[1], "inputs": [inp], "observed": pick[2], "expected": pick[3], "count": 1,
            "all_keys": [f[0] for f in fl]}


if __name__ == "__main__":
    a = sys.argv[1:]
    if a and a[0] == "replay":
        print(json.dumps(replay(json.loads(a[1])), indent=1, default=repr))
    else:
        tier = a[0] if a else "quick"
        seed = int(a[1]) if len(a) > 1 else 0
        jobs = int(a[2]) if len(a) > 2 else None
        print(json.dumps(run(tier, seed, jobs), indent=1, default=repr))
