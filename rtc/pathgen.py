"""Segment vocabulary and YAML Path text rendering for the bounded stand-ins.

A segment is a tuple:
  ("key", text|int)            ("idx", int)                  ("slice", lo, hi)   lo/hi: int or str
  ("anchor", name)             ("search", inverted, attr, op, term)   op in OPS
  ("all",)  ("trav",)          ("glob", text_with_stars)
  ("kw", inverted, name, params_text)
  ("coll", operator, [segments])      operator in "", "+", "-", "&"
`render(segments, sep)` writes them in dot (".") or forward-slash ("/") notation using the
documented escapes (a backslash before every character that is special to the syntax).
This renderer is independent of yamlpath's own stringifier on purpose.
"""
import itertools

OPS = ("=", "^", "$", "%", ">", "<", ">=", "<=", "=~")
SPECIALS = set(". / [ ] ( ) ' \" ^ $ % & * ! = < > ~ , : + -".split()) | {" ", "\\"}
KEY_ESCAPES = set("./[]()'\"^$% \\&*")   # escaped when they occur in key text


def esc_key(text, sep):
    out = []
    for i, ch in enumerate(str(text)):
        if ch == "\\" or ch in "[]()'\"^$% *" or ch == sep or (ch == "&" and i == 0):
            out.append("\\" + ch)
        else:
            out.append(ch)
    return "".join(out)


def quote_term(term):
    t = str(term)
    if t == "" or any(c in t for c in " []'\"\\") :
        if '"' not in t:
            return '"' + t.replace("\\", "\\\\") + '"'
        return "'" + t.replace("\\", "\\\\") + "'"
    return t


def render_segment(seg, sep, first):
    """Return (text, needs_separator_before)."""
    k = seg[0]
    if k == "key":
        return esc_key(seg[1], sep), True
    if k == "idx":
        return "[%d]" % seg[1], False
    if k == "slice":
        return "[%s:%s]" % (seg[1], seg[2]), False
    if k == "anchor":
        return ("&%s" % seg[1], True) if first else ("[&%s]" % seg[1], False)
    if k == "search":
        _, inv, attr, op, term = seg
        a = "." if attr == "." else esc_key(attr, sep)
        if op == "=~":
            return "[%s%s=~/%s/]" % (a, "!" if inv else "", term), False
        return "[%s%s%s%s]" % (a, "!" if inv else "", op, quote_term(term)), False
    if k == "all":
        return "*", True
    if k == "trav":
        return "**", True
    if k == "glob":
        return seg[1], True
    if k == "kw":
        _, inv, name, params = seg
        return "[%s%s(%s)]" % ("!" if inv else "", name, params), False
    if k == "coll":
        _, op, inner = seg
        return "%s(%s)" % (op, render(inner, sep, nested=True)), False
    raise ValueError(seg)


def render(segments, sep=".", nested=False):
    parts = []
    first = True
    for seg in segments:
        text, needs_sep = render_segment(seg, sep, first)
        if needs_sep and (not first or (sep == "/" )):
            parts.append(sep)
        parts.append(text)
        first = False
    s = "".join(parts)
    if sep == "/" and not s.startswith("/") and not nested:
        s = "/" + s
    return s


def vocabulary(keys=("a", "b", 1, "x.y"), idx=range(-3, 4), slices=((0, 1), (0, 2), (1, 3), (0, -1), (-2, 9), (1, 1), (5, 9), (-9, -1)),
               attrs=(".", "a", "b"), terms=("a", "1", "b"), ops=OPS, inverted=(False, True),
               globs=("a*", "*a", "a*a"), regex_terms=("a", "^1", ".")):
    v = [("key", k) for k in keys]
    v += [("idx", i) for i in idx]
    v += [("slice", a, b) for a, b in slices]
    for inv, attr, op in itertools.product(inverted, attrs, ops):
        for t in (regex_terms if op == "=~" else terms):
            v.append(("search", inv, attr, op, t))
    v += [("all",), ("trav",)]
    v += [("glob", g) for g in globs]
    return v


def paths(vocab, max_len):
    for n in range(0, max_len + 1):
        for p in itertools.product(vocab, repeat=n):
            # consecutive traversal segments are a documented error; keep them (C15 wants the error type)
            yield list(p)
